"""Driver side: launches template processes and distributes simulated runs.

A *boot key* is the JSON of the launch parameters:
  {"imports": [...], "trace": bool, "opt": bool, "hashseed": int}
Scheduling of runs over workers never influences a run's result: each run is a
pure function of (boot key minus hashseed, request).
"""
import json
import os
import queue
import subprocess
import sys
import threading
import time

from sim.util import VERIF, REPO_SRC

PY = sys.executable


class HarnessError(Exception):
    pass


class Template:
    def __init__(self, boot):
        self.boot = boot
        env = dict(os.environ)
        env["PYTHONHASHSEED"] = str(boot.get("hashseed", 0))
        env["PYTHONDONTWRITEBYTECODE"] = "1"
        env["PYTHONPATH"] = VERIF + os.pathsep + REPO_SRC
        env.pop("PYTHONOPTIMIZE", None)
        cmd = [PY]
        if boot.get("opt"):
            cmd.append("-O")
        cfg = {"imports": boot.get("imports", []), "trace": bool(boot.get("trace"))}
        cmd += ["-m", "sim.template", json.dumps(cfg)]
        self.proc = subprocess.Popen(
            cmd, stdin=subprocess.PIPE, stdout=subprocess.PIPE, stderr=subprocess.DEVNULL,
            cwd=VERIF, env=env,
        )
        line = self.proc.stdout.readline()
        if not line:
            self._reap()
            raise HarnessError("template failed to start: %r" % (boot,))
        hello = json.loads(line)
        if not hello.get("ready"):
            self._reap()
            raise HarnessError("template boot failed: %s" % hello.get("error"))
        self.hello = hello

    def _reap(self):
        try:
            self.proc.kill()
        except Exception:
            pass
        try:
            self.proc.wait(timeout=5)
        except Exception:
            pass

    def request(self, req):
        try:
            self.proc.stdin.write(json.dumps(req).encode() + b"\n")
            self.proc.stdin.flush()
        except (BrokenPipeError, OSError) as e:
            raise HarnessError("template pipe broken: %r" % (e,))
        line = self.proc.stdout.readline()
        if not line:
            raise HarnessError("template died during request")
        return json.loads(line)

    def close(self):
        try:
            self.proc.stdin.write(b'{"kind":"quit"}\n')
            self.proc.stdin.flush()
            self.proc.stdin.close()
        except Exception:
            pass
        try:
            self.proc.wait(timeout=5)
        except Exception:
            self.proc.kill()
            self.proc.wait()


def boot_key(boot):
    return json.dumps(boot, sort_keys=True)


class Pool:
    """Worker threads, each owning templates keyed by boot key."""

    def __init__(self, workers=None, max_templates_per_worker=3):
        self.workers = workers or min(16, os.cpu_count() or 4)
        self.max_t = max_templates_per_worker
        self.template_starts = 0
        self._lock = threading.Lock()

    def run(self, tasks, progress=None):
        """tasks: list of (boot dict, request dict). Returns list of results."""
        results = [None] * len(tasks)
        # group by boot so that a worker keeps reusing its template
        order = sorted(range(len(tasks)), key=lambda i: boot_key(tasks[i][0]))
        q = queue.Queue()
        nw = max(1, min(self.workers, len(tasks)))
        # interleave so every worker gets contiguous same-boot chunks
        chunk = max(1, min(64, (len(order) + nw * 4 - 1) // (nw * 4)))
        for s in range(0, len(order), chunk):
            q.put(order[s:s + chunk])
        errors = []

        def work():
            templates = {}
            lru = []
            try:
                while True:
                    try:
                        idxs = q.get_nowait()
                    except queue.Empty:
                        break
                    for i in idxs:
                        boot, req = tasks[i]
                        k = boot_key(boot)
                        t = templates.get(k)
                        if t is None:
                            if len(templates) >= self.max_t:
                                old = lru.pop(0)
                                templates.pop(old).close()
                            t = Template(boot)
                            with self._lock:
                                self.template_starts += 1
                            templates[k] = t
                        if k in lru:
                            lru.remove(k)
                        lru.append(k)
                        try:
                            results[i] = t.request(req)
                        except HarnessError as e:
                            results[i] = {"harness_error": str(e)}
                            templates.pop(k, None)
                            if k in lru:
                                lru.remove(k)
                            try:
                                t.close()
                            except Exception:
                                pass
                        if progress:
                            progress(i)
            except BaseException as e:  # pragma: no cover
                errors.append(repr(e))
            finally:
                for t in templates.values():
                    t.close()

        threads = [threading.Thread(target=work, daemon=True) for _ in range(nw)]
        for t in threads:
            t.start()
        for t in threads:
            t.join()
        if errors:
            raise HarnessError("; ".join(errors))
        return results


def one(boot, req):
    t = Template(boot)
    try:
        return t.request(req)
    finally:
        t.close()
