"""Plans for the properties beyond C01."""
import json
import os

from sim import driver
from sim.boot import ALL_MODULES
from sim.plans import RunPlan, std_boots
from sim.report import out
from sim.util import REPLAY_DIR, canon, source_hashes


class C20Plan(RunPlan):
    prop = "C20"
    expected_reach = ('context_switches', 'preempted_inside___new__', 'lock_blocked_yields', 'C20.table-count.checked',
                      'instruction_level_yield_points')
    engine = "T"
    quick_runs = 3000
    thorough_runs = 300000
    rule = ("one evaluation = one simulated run: 2-3 real threads under the baton scheduler, each "
            "evaluating 1-4 expressions denoting dimensions/prefixes/units/logarithms not yet interned "
            "in a fresh forked world (same or merely equal-valued expressions per thread); every line "
            "event (per run optionally every opcode inside the __new__ methods) in measured/*.py is a "
            "pre-emption point decided by the seeded scheduler (uniform / PCT d<=3 / sticky). Oracle: "
            "one object per structural key among everything the interning constructors returned, "
            "thread results identical, later evaluation returns the same object, all slots initialised. "
            "Non-trivial = at least one key checked and at least one context switch; distinct = distinct "
            "event-log digests (schedule decisions + results).")
    components = {
        "real": ["measured (entire package)", "CPython threads (real, one runnable at a time)"],
        "simulated": ["thread scheduler (baton passing at line/opcode events via sys.settrace)",
                      "locks created by the library (SimLock seam patched into threading during import)"],
        "stub": [],
    }

    def boots(self, tier, seed):
        return std_boots(seed, 1 if tier == "quick" else 4)[:1 if tier == "quick" else None]

    def params(self, tier):
        return {"long": tier == "thorough"}

    def request(self, run_seed, boot):
        return {"engine": "T", "prop": "C20", "seed": run_seed, "params": self.params_cache, "timeout": 180}

    def nontrivial(self, r):
        return r.get("counters", {}).get("C20.keys.checked", 0) > 0 and \
            r.get("probes", {}).get("context_switches", 0) > 0

    def replay(self, rp):
        return driver.one(rp["boot"], dict(rp["request"]))

    def evidence(self, tier, seed, t0, tasks, results, by_sig, known_seen, st, **kw):
        inter = {r.get("interleaving") for r in results if r and "interleaving" in r}
        extra = kw.pop("extra", None) or {}
        extra["distinct_interleavings"] = len(inter)
        extra["distinct_interleavings_measure"] = "distinct SHA-256 of the context-switch sequence (thread, qualname, line) per run"
        super().evidence(tier, seed, t0, tasks, results, by_sig, known_seen, st, extra=extra, **kw)

    def samples(self, tasks, results):
        outp = []
        for i, r in enumerate(results):
            if r and "harness_error" not in r and self.nontrivial(r):
                b, req = tasks[i]
                try:
                    rr = driver.one(b, dict(req, want_ops=True))
                    outp.append({"seed": req["seed"], "program": rr.get("ops"),
                                 "schedule": "".join(str(x) for x in rr.get("schedule") or []),
                                 "digest": rr.get("digest")})
                except driver.HarnessError:
                    pass
                if len(outp) >= 3:
                    break
        return outp or [{"note": "no non-trivial run"}]

    def minimise_and_write(self, sig, task, result, v):
        boot, req = task
        t = driver.Template(boot)
        evals = 0
        try:
            full = t.request(dict(req, want_ops=True))
            program, schedule = full["ops"], full["schedule"]

            def test(prog, sched):
                nonlocal evals
                evals += 1
                r = t.request({"engine": "T", "prop": "C20", "program": prog, "schedule": sched,
                               "timeout": 180})
                return any(x["signature"] == sig for x in r.get("violations", []))

            if test(program, schedule):
                # fewer expressions
                changed = True
                while changed and evals < 300:
                    changed = False
                    n = max(len(p) for p in program["threads"])
                    for ei in range(n):
                        cand = dict(program, threads=[p[:ei] + p[ei + 1:] for p in program["threads"]])
                        if not (any(cand["threads"]) and all(len(p) for p in cand["threads"])):
                            continue
                        if test(cand, schedule):
                            program = cand
                            changed = True
                            break
                        # the recorded schedule no longer lines up with the shorter program: let the
                        # seeded scheduler run it and, if the violation persists, adopt its schedule
                        evals += 1
                        r = t.request({"engine": "T", "prop": "C20", "program": cand, "want_ops": True,
                                       "timeout": 180})
                        if any(x["signature"] == sig for x in r.get("violations", [])):
                            program, schedule = cand, r.get("schedule") or schedule
                            changed = True
                            break
                if len(program["threads"]) > 2:
                    for ti in range(len(program["threads"])):
                        cand = dict(program, threads=program["threads"][:ti] + program["threads"][ti + 1:])
                        remap = [x for x in schedule if x != ti]
                        remap = [x - 1 if x > ti else x for x in remap]
                        if test(cand, remap):
                            program, schedule = cand, remap
                            break
                # fewer context switches: merge run-length segments
                segs = []
                for x in schedule:
                    if segs and segs[-1][0] == x:
                        segs[-1][1] += 1
                    else:
                        segs.append([x, 1])
                i = 1
                while i < len(segs) - 1 and evals < 600:
                    # move segment i's steps after segment i+1 (which merges i-1 and i+1 if same thread)
                    cand = segs[:i] + segs[i + 1:i + 2] + [segs[i]] + segs[i + 2:]
                    flat = [x for x, n in cand for _ in range(n)]
                    if test(program, flat):
                        merged = []
                        for x, n in cand:
                            if merged and merged[-1][0] == x:
                                merged[-1][1] += n
                            else:
                                merged.append([x, n])
                        segs = merged
                    else:
                        i += 1
                schedule = [x for x, n in segs for _ in range(n)]
            final_req = {"engine": "T", "prop": "C20", "program": program, "schedule": schedule,
                         "timeout": 180}
            final = t.request(final_req)
        finally:
            t.close()
        rp = {
            "property": "C20", "signature": sig, "boot": boot, "request": final_req,
            "seed": req.get("seed"), "shrink_evaluations": evals,
            "context_switches": sum(1 for a, b in zip(schedule, schedule[1:]) if a != b),
            "expect": {"signature": sig, "digest": final.get("digest")},
            "violation": [x for x in final.get("violations", []) if x["signature"] == sig][:1],
            "source_hashes": source_hashes(),
        }
        d = os.path.join(REPLAY_DIR, "C20")
        os.makedirs(d, exist_ok=True)
        from sim.plans import safe_name

        path = os.path.join(d, safe_name(sig, req.get("seed") or 0))
        with open(path, "w") as f:
            json.dump(rp, f, indent=1)
        fresh = self.replay(rp)
        self.last_replay_reproduced = any(x["signature"] == sig for x in fresh.get("violations", []))
        return path


class C19Plan(RunPlan):
    prop = "C19"
    expected_reach = ('F2', 'C19.a.checked', 'C19.b.checked', 'C19.c.checked', 'C19.c.F2.checked')
    engine = "A"
    level = "fault_enumeration"
    quick_runs = 1200
    thorough_runs = 60000
    rule = ("three parts. (1) ENUMERATED crash points (the fault_enumeration claim): for each call of the "
            "definitional corpus (sim/c19_corpus.py: every definitional entry point in each object state) "
            "and each boot, an asynchronous exception is injected at EVERY line-event ordinal 1..n executed "
            "in library code by that call, one fresh forked world per ordinal; clause (c) compares a deep "
            "registry snapshot taken after argument evaluation with the state after the raise. "
            "(2) seeded histories (exploration): <=60 operations mixing anonymous construction, naming in "
            "all orders, F1 validation failures (duplicate name / duplicate symbol / symbol with a space / both, "
            "in every argument position, on fresh and already-aliased objects), late imports, cache eviction and "
            "at most one F2; clauses (a),(b),(c) after every declaration. (3) the boot tracer's log of every "
            "shipped declaration under each boot (import orders/subsets): clauses (a),(b) for each declared "
            "name/symbol. evaluations = simulated runs of (1)+(2)+(3); a run is non-trivial if it evaluated >=1 "
            "clause; distinct = distinct event-log digests among them.")

    def params(self, tier):
        return {"late_imports": list(ALL_MODULES), "faults": True, "long": tier == "thorough"}

    def boots(self, tier, seed):
        return std_boots(seed, 2 if tier == "quick" else 8)

    def extra_checks(self, tier, seed, pool, findings):
        from sim import c19_corpus

        boots = self.boots(tier, seed)
        enum_boots = boots[:2] if tier == "quick" else boots
        violations = []
        ev = {}
        # ---- (3) shipped declarations under each boot (needs the boot tracer)
        decl_boots = [dict(b, trace=True) for b in boots]
        if tier == "thorough":
            decl_boots += [{"imports": [m], "trace": True, "opt": False, "hashseed": 0} for m in ALL_MODULES]
        res = pool.run([(b, {"engine": "BOOT", "what": "c19_declared", "timeout": 120}) for b in decl_boots])
        shipped_checked = 0
        for b, r in zip(decl_boots, res):
            if "harness_error" in r:
                raise driver.HarnessError(r["harness_error"])
            shipped_checked += r["counters"]["C19.shipped.checked"]
            for v in r["violations"]:
                violations.append(dict(v, boot=b, request={"engine": "BOOT", "what": "c19_declared"}))
        ev["shipped_declarations_checked"] = shipped_checked
        ev["shipped_declaration_boots"] = len(decl_boots)
        # ---- (1) exhaustive F2 enumeration
        # thorough tier: crash points at bytecode-instruction granularity (roughly 8x as many)
        gran = "opcode" if tier == "thorough" else "line"
        snap_tasks = []
        for b in enum_boots[:3] if tier == "thorough" else enum_boots:
            t = driver.Template(b)
            try:
                snap = t.request({"kind": "bootinfo"})["snapshot"]
            finally:
                t.close()
            for c in c19_corpus.corpus(snap):
                ops = c["setup"] + [dict(c["target"], inject={"ordinal": 0, "exc": "KeyboardInterrupt",
                                                              "granularity": gran})]
                snap_tasks.append((b, c, {"engine": "A", "prop": "C19", "ops": ops,
                                          "opts": {"want_log": True}, "timeout": 120}))
        counts = pool.run([(b, r) for b, c, r in snap_tasks])
        tasks = []
        meta = []
        calls = 0
        for (b, c, r0), res0 in zip(snap_tasks, counts):
            if "harness_error" in res0:
                raise driver.HarnessError(res0["harness_error"])
            rec = res0["log"][-1]
            n = rec.get("inject", {}).get("lines", 0)
            calls += 1
            for k in range(1, n + 1):
                exc = "KeyboardInterrupt" if k % 2 else "MemoryError"
                ops = c["setup"] + [dict(c["target"], inject={"ordinal": k, "exc": exc, "granularity": gran})]
                tasks.append((b, {"engine": "A", "prop": "C19", "ops": ops, "timeout": 120}))
                meta.append((c["name"], k, n))
        results = pool.run(tasks)
        sigs = {}
        fired = 0
        atomic = 0
        for (b, req), (cname, k, n), r in zip(tasks, meta, results):
            if "harness_error" in r:
                raise driver.HarnessError(r["harness_error"])
            fired += r.get("faults_fired", {}).get("F2", 0)
            vs = [v for v in r["violations"]]
            if not vs:
                atomic += 1
            for v in vs:
                sigs[v["signature"]] = sigs.get(v["signature"], 0) + 1
                violations.append(dict(v, boot=b, request=req,
                                       detail=dict(v.get("detail") or {}, corpus=cname, ordinal=k, of=n)))
        if fired != len(tasks):
            raise driver.HarnessError("F2 enumeration: %d of %d injections fired" % (fired, len(tasks)))
        ev["f2_enumeration"] = {
            "exhaustive": True, "granularity": gran, "corpus_calls": calls,
            "boots": len(enum_boots[:3] if tier == "thorough" else enum_boots),
            "crash_points_enumerated": len(tasks), "injections_fired": fired,
            "crash_points_leaving_registries_unchanged": atomic,
            "signatures": sigs,
        }
        self.enum_results = results
        # one VIOLATION per signature is enough
        seen = set()
        uniq = []
        for v in violations:
            if v["signature"] not in seen:
                seen.add(v["signature"])
                uniq.append(v)
        return uniq, ev

    def evidence(self, tier, seed, t0, tasks, results, by_sig, known_seen, st, **kw):
        extra = kw.get("extra") or {}
        enum = getattr(self, "enum_results", None) or []
        # enumerated runs count as evaluations too
        super().evidence(tier, seed, t0, tasks + [(tasks[0][0], {})] * len(enum) if tasks else tasks,
                         results + enum, by_sig, known_seen, st, **kw)


def b_boots(seed, tier, opt=False):
    """World B boots: SI only (prefixes available), everything, and the bare core."""
    import random

    from sim.util import h64

    boots = [
        {"imports": ["si"], "trace": False, "opt": opt, "hashseed": 0},
        {"imports": list(ALL_MODULES), "trace": False, "opt": opt, "hashseed": 0},
        {"imports": [], "trace": False, "opt": opt, "hashseed": 0},
        # traced boots: the system under test is the shipped units themselves
        # (sizes solved from the traced declaration history)
        {"imports": list(ALL_MODULES), "trace": True, "opt": opt, "hashseed": 0},
    ]
    rng = random.Random(h64(seed, "b-boots"))
    for _ in range(1 if tier == "quick" else 6):
        mods = list(ALL_MODULES)
        rng.shuffle(mods)
        boots.append({"imports": mods[:rng.randint(3, len(mods))], "trace": True, "opt": opt, "hashseed": 0})
    if tier == "thorough":
        boots += [b for b in std_boots(seed, 4, opt)[2:]]
    return boots


B_COMPONENTS = {
    "real": ["measured (entire package): conversions planner, path search, caches, Quantity arithmetic"],
    "simulated": ["fresh worlds / restarts (os.fork of a template interpreter)", "cache eviction (F4)",
                  "asynchronous exceptions inside queries (F2)",
                  "unit systems under construction with hidden exact sizes (reference model)"],
    "stub": [],
}

DEF_KINDS = {"dim_unit", "define_unit", "derive", "alias", "declare", "scale"}
QUERY_KINDS = {"convert", "cmp", "q_bin", "conv_linear", "conv_roundtrip", "conv_self", "conv_via", "sorted"}


def refs_of(op):
    out = []
    for k, v in op.items():
        if isinstance(v, list) and len(v) >= 2 and v[0] == "r" and isinstance(v[1], int):
            out.append(v[1])
        elif k == "qs" and isinstance(v, list):
            out.extend(x[1] for x in v if isinstance(x, list) and x and x[0] == "r")
    return out


ALGEBRA_KINDS = {"u_mul", "u_div", "u_pow", "u_root", "p_mul_u", "prefix_new", "p_bin", "p_pow"}


def baseline_ops(ops, qi, include_algebra=False):
    """Definitions and declarations before ops[qi], plus whatever is needed to build
    the operands of the query, then the query alone.  include_algebra additionally
    keeps every pure unit-algebra op (used only to diagnose whether a difference
    comes from the order in which a unit's factors were first multiplied)."""
    q = ops[qi]
    by_id = {o["id"]: o for o in ops[:qi]}
    keep = set()
    stack = []
    for o in ops[:qi]:
        if o["op"] in DEF_KINDS or (o["op"] == "prefix_new" and (o.get("name") or o.get("symbol"))) \
                or (include_algebra and o["op"] in ALGEBRA_KINDS):
            keep.add(o["id"])
            stack.extend(refs_of(o))
    stack.extend(refs_of(q))
    while stack:
        i = stack.pop()
        if i in keep or i not in by_id:
            continue
        keep.add(i)
        stack.extend(refs_of(by_id[i]))
    out = [o for o in ops[:qi] if o["id"] in keep]
    qq = {k: v for k, v in q.items() if k not in ("inject", "repeat_of")}
    return out + [qq]


def upstream_queries(ops, qi):
    """ids of earlier queries whose results feed (through references) into ops[qi]."""
    by_id = {o["id"]: o for o in ops[:qi]}
    seen, out = set(), []
    stack = list(refs_of(ops[qi]))
    while stack:
        i = stack.pop()
        if i in seen or i not in by_id:
            continue
        seen.add(i)
        if by_id[i]["op"] in QUERY_KINDS:
            out.append(i)
        stack.extend(refs_of(by_id[i]))
    return sorted(out)


def same_outcome(a, b, tol):
    if a is None or b is None:
        return a == b
    if a.get("cls") != b.get("cls"):
        return False
    if "b" in a or "b" in b:
        return a.get("b") == b.get("b") and a.get("order") == b.get("order")
    if "m" in a and "m" in b:
        if a["m"] == b["m"]:
            return True
        try:
            x, y = float(a["m"][1].replace("Decimal('", "").replace("')", "")), \
                float(b["m"][1].replace("Decimal('", "").replace("')", ""))
        except ValueError:
            return False
        if a["m"][0] != b["m"][0]:
            return False
        if x == y:
            return True
        return abs(x - y) <= tol * max(abs(x), abs(y))
    return True


class C08Plan(RunPlan):
    prop = "C08"
    expected_reach = ('F2', 'F4', 'repeat-without-declaration-between', 'repeat-after-declaration', 'C08.baseline.checked')
    engine = "B"
    quick_runs = 1500
    thorough_runs = 40000
    run_timeout = 180
    components = B_COMPONENTS
    rule = ("one evaluation = one simulated history (<=60 ops) over a synthetic, exactly consistent unit system "
            "under construction: unit definitions, equivalence declarations (several redundant paths, seeded "
            "order) and conversion/comparison/+/- queries interleaved at any point, including before the "
            "declarations that enable them, with repeats, chained conversions, cache evictions (F4) and at most one "
            "asynchronous exception inside a query (F2). Oracle 1 (fresh-world differential): for every query "
            "(a seeded third in histories longer than 25 ops) a baseline world forked from the same template "
            "executes only the definitions/declarations that preceded it plus the query; outcome class must match "
            "and magnitudes agree within 1e-9. Oracle 2: a repeat with no declaration in between is bit-identical. "
            "Non-trivial = >=1 query compared against its baseline; distinct = distinct event-log digests.")

    def boots(self, tier, seed):
        return b_boots(seed, tier)

    def params(self, tier):
        return {"faults": True, "long": tier == "thorough"}

    def request(self, run_seed, boot):
        return {"engine": "B", "prop": self.prop, "seed": run_seed,
                "params": dict(self.params_cache, shipped=bool(boot.get("trace"))),
                "timeout": self.run_timeout, "want_ops": True}

    def nontrivial(self, r):
        return r.get("counters", {}).get("C08.baseline.checked", 0) > 0

    def select_queries(self, ops, seed):
        idx = [i for i, o in enumerate(ops) if o["op"] in QUERY_KINDS and "inject" not in o]
        if len(ops) > 25:
            idx = [i for k, i in enumerate(idx) if (k + (seed or 0)) % 3 == 0]
        return idx

    def compare(self, res, ops, qi, base_res):
        """Appends a violation to res if the history outcome of ops[qi] differs from
        its baseline outcome."""
        q = ops[qi]
        h = (res.get("queries") or {}).get(str(q["id"]))
        b = (base_res.get("queries") or {}).get(str(q["id"]))
        c = res.setdefault("counters", {})
        if h is None or b is None:
            c["C08.baseline.skipped"] = c.get("C08.baseline.skipped", 0) + 1
            return None
        # a query fed by the result of an earlier query is compared only when that earlier
        # query gave the same result in both worlds; otherwise the two worlds asked different
        # questions, and it is the earlier query that is compared with its own baseline
        differs = [u for u in upstream_queries(ops, qi)
                   if not same_outcome((res.get("queries") or {}).get(str(u)),
                                       (base_res.get("queries") or {}).get(str(u)), 1e-9)]
        if differs:
            c["C08.baseline.input-differs"] = c.get("C08.baseline.input-differs", 0) + 1
            return {"upstream": differs}
        c["C08.baseline.checked"] = c.get("C08.baseline.checked", 0) + 1
        if same_outcome(h, b, 1e-9):
            return None
        ho = (res.get("query_orders") or {}).get(str(q["id"]))
        bo = (base_res.get("query_orders") or {}).get(str(q["id"]))
        return {"clause": "C08.baseline", "signature": None, "step": qi,
                "detail": {"query": q, "history_outcome": h, "fresh_world_outcome": b,
                           "factor_order_in_history": ho, "factor_order_in_fresh_world": bo}}

    def diagnose(self, template_req, ops, qi, v):
        """history/<mechanism>: re-run the history with every cache cleared right
        before the query; if that restores the baseline outcome the cause is a
        stale memo table."""
        q = ops[qi]
        cand = ops[:qi] + [{"op": "evict", "caches": None, "id": 10 ** 6}] + ops[qi:qi + 1]
        r = template_req(cand)
        h2 = (r.get("queries") or {}).get(str(q["id"]))
        b = v["detail"]["fresh_world_outcome"]
        h = v["detail"]["history_outcome"]
        if same_outcome(h2, b, 1e-9):
            if h.get("cls", "").startswith("raise") and b.get("cls") == "ok":
                return "stale-negative-cache"
            if h.get("cls") == "ok" and b.get("cls") == "ok":
                return "stale-ratio-cache"
            return "stale-cache"
        return "other"

    def post_process(self, tasks, results, pool):
        todo = []
        done = set()
        for i, ((boot, req), res) in enumerate(zip(tasks, results)):
            if not res or "harness_error" in res or not res.get("ops"):
                continue
            for qi in self.select_queries(res["ops"], req.get("seed")):
                todo.append((i, qi))
        pending = []
        while todo:
            todo = [w for w in todo if w not in done]
            done.update(todo)
            btasks = [(tasks[i][0], {"engine": "B", "prop": self.prop, "timeout": self.run_timeout,
                                     "ops": baseline_ops(results[i]["ops"], qi)}) for i, qi in todo]
            bres = pool.run(btasks) if btasks else []
            self.baseline_worlds = getattr(self, "baseline_worlds", 0) + len(btasks)
            more = []
            for k, ((i, qi), br) in enumerate(zip(todo, bres)):
                if "harness_error" in br:
                    br = driver.one(*btasks[k])          # once more, in a fresh template
                    bres[k] = br
                if "harness_error" in br:
                    results[i]["harness_error"] = "baseline world: " + str(br["harness_error"])
                    continue
                if "harness_error" in results[i]:
                    continue
                ops = results[i]["ops"]
                v = self.compare(results[i], ops, qi, br)
                if v is not None and "upstream" in v:
                    pos = {o["id"]: n for n, o in enumerate(ops)}
                    more += [(i, pos[u]) for u in v["upstream"] if "inject" not in ops[pos[u]]]
                elif v is not None:
                    pending.append((i, qi, v))
            todo = more
        # diagnose mechanisms (one extra world per differing query)
        dtasks = []
        for i, qi, v in pending:
            ops = results[i]["ops"]
            cand = ops[:qi] + [{"op": "evict", "caches": None, "id": 10 ** 6}] + ops[qi:qi + 1]
            dtasks.append((tasks[i][0], {"engine": "B", "prop": self.prop, "ops": cand, "timeout": self.run_timeout}))
        dres = pool.run(dtasks) if dtasks else []
        atasks = [(tasks[i][0], {"engine": "B", "prop": self.prop, "timeout": self.run_timeout,
                                 "ops": baseline_ops(results[i]["ops"], qi, include_algebra=True)})
                  for i, qi, v in pending]
        ares = pool.run(atasks) if atasks else []
        for (i, qi, v), dr, ar in zip(pending, dres, ares):
            v["signature"] = "C08/history/" + self._mechanism(results[i]["ops"][qi], v, dr, ar)
            results[i].setdefault("violations", []).append(v)
        for r in results:
            if r and "ops" in r:
                r["ops"] = None   # free memory

    def _mechanism(self, q, v, dr, ar=None):
        h2 = (dr.get("queries") or {}).get(str(q["id"]))
        b, h = v["detail"]["fresh_world_outcome"], v["detail"]["history_outcome"]
        if same_outcome(h2, b, 1e-9):
            if h.get("cls", "").startswith("raise") and b.get("cls") == "ok":
                return "stale-negative-cache"
            if h.get("cls") == "ok" and b.get("cls") == "ok":
                return "stale-ratio-cache"
            return "stale-cache"
        if ar is not None:
            a = (ar.get("queries") or {}).get(str(q["id"]))
            d = v["detail"]
            if same_outcome(a, h, 1e-9) and d.get("factor_order_in_history") is not None and \
                    d.get("factor_order_in_history") != d.get("factor_order_in_fresh_world"):
                # a fresh world that only repeats the history's pure unit algebra (no queries) already
                # reproduces the history's answer, AND the operand units' factors were first multiplied
                # in another order there than in the baseline
                return "interned-factor-order"
        return "other"

    def run_one(self, template, req):
        res = template.request(dict(req, want_ops=True))
        if "harness_error" in res:
            return res
        ops = res.get("ops") or req.get("ops")
        for qi in [i for i, o in enumerate(ops) if o["op"] in QUERY_KINDS and "inject" not in o]:
            br = template.request({"engine": "B", "prop": self.prop, "ops": baseline_ops(ops, qi),
                                   "timeout": self.run_timeout})
            if "harness_error" in br:
                return br
            v = self.compare(res, ops, qi, br)
            if v is not None and "upstream" not in v:
                cand = ops[:qi] + [{"op": "evict", "caches": None, "id": 10 ** 6}] + ops[qi:qi + 1]
                dr = template.request({"engine": "B", "prop": self.prop, "ops": cand, "timeout": self.run_timeout})
                ar = template.request({"engine": "B", "prop": self.prop, "timeout": self.run_timeout,
                                       "ops": baseline_ops(ops, qi, include_algebra=True)})
                v["signature"] = "C08/history/" + self._mechanism(ops[qi], v, dr, ar)
                res.setdefault("violations", []).append(v)
        return res

    def evidence(self, tier, seed, t0, tasks, results, by_sig, known_seen, st, **kw):
        extra = kw.pop("extra", None) or {}
        extra["baseline_worlds_forked"] = getattr(self, "baseline_worlds", 0)
        super().evidence(tier, seed, t0, tasks, results, by_sig, known_seen, st, extra=extra, **kw)


class C04Plan(RunPlan):
    prop = "C04"
    expected_reach = ('F4', 'C04.value.checked.exact-system', 'C04.value.checked')
    engine = "B"
    quick_runs = 5000
    thorough_runs = 150000
    components = B_COMPONENTS
    rule = ("one evaluation = one simulated history over a synthetic unit system with hidden exact rational "
            "sizes (2-4 fundamental dimensions, 2-5 units each, named units of derived dimensions, redundant "
            "consistent declarations in seeded order) with conversions interleaved at arbitrary points, caches "
            "cold/warm/evicted, under several boot configurations; every successful in_unit is compared with "
            "magnitude*size(src)/size(dst) in exact arithmetic (1e-12; 1e-9 where binary and decimal prefixes mix; "
            "1e-5 per degree in shipped mode, where the system is the boot's shipped units with sizes solved from "
            "the traced declarations) and must carry the requested unit object. Query shapes (<=3 factors, "
            "|exponent|<=3, any prefix) are drawn from the calibrated region (DESIGN 8.3: classes X1-X8 excluded; "
            "their exemplars are re-executed every run). Non-trivial = >=1 value "
            "checked; distinct = distinct event-log digests.")

    def boots(self, tier, seed):
        return b_boots(seed, tier)

    def params(self, tier):
        return {"faults": True, "long": tier == "thorough"}

    def request(self, run_seed, boot):
        return {"engine": "B", "prop": self.prop, "seed": run_seed,
                "params": dict(self.params_cache, shipped=bool(boot.get("trace"))),
                "timeout": self.run_timeout}


class C05Plan(C04Plan):
    prop = "C05"
    expected_reach = ("F4", "C05.linear.checked", "C05.roundtrip.checked", "C05.via.checked", "C05.self.checked",
                      "C05.sign.checked")
    quick_runs = 5000
    rule = ("one evaluation = one simulated history as for C04, whose queries are composite: k*q vs k*convert(q) "
            "(k in {0,-1,2,1e-3,7/3}), zero and sign, conversion to the own unit (1e-12), there-and-back (2e-12) and "
            "via an intermediate unit vs direct (3e-12), plus chains through the pool of earlier results; all on "
            "exactly consistent synthetic systems in the calibrated region, with cache eviction between and inside "
            "chains. No fault kind bears on this property; the simulator contributes the histories, configurations "
            "and eviction. Non-trivial = >=1 C05 clause evaluated.")


class C07Plan(C04Plan):
    prop = "C07"
    expected_reach = ("F4", "C07.failure.checked", "C07.O-diff.checked", "raise:ConversionNotFound", "raise:TypeError")
    quick_runs = 2500      # each seed is run twice: python and python -O
    thorough_runs = 60000
    rule = ("one evaluation = one simulated history (as C08: queries on unconnected, partially connected and "
            "product-defined units, before and after declarations) executed twice from the same seed: in a "
            "template started with `python` and in one started with `python -O` (same import order). Clause 1: a "
            "failing in_unit/+/- raises only ConversionNotFound, ordering raises TypeError, == never raises; "
            "signature = exception type + innermost library frame + shape class. Clause 2: the two event logs "
            "(every outcome class and every magnitude) must be identical. Query shapes from the calibrated region; "
            "exemplars of the excluded classes are re-executed every run.")

    def params(self, tier):
        # no asynchronous exceptions here: an injection is placed by counting line events, and
        # `python -O` executes fewer lines (asserts vanish), so the same ordinal would land
        # elsewhere and the two logs would differ for a reason that is not the library's
        return {"faults": False, "long": tier == "thorough"}

    def boots(self, tier, seed):
        return b_boots(seed, tier)

    def build_pairs(self, tasks):
        out = []
        for b, r in tasks:
            out.append((b, r))
            out.append((dict(b, opt=True), r))
        return out

    def post_process(self, tasks, results, pool):
        # run every seed again under -O and compare digests
        otasks = [(dict(b, opt=True), r) for b, r in tasks]
        ores = pool.run(otasks)
        self.opt_runs = getattr(self, "opt_runs", 0) + len(ores)
        for i, (r, o) in enumerate(zip(results, ores)):
            if "harness_error" in r:
                continue
            if "harness_error" in o:
                # a world that dies or hangs only under -O is exactly what clause 2 is about - if it
                # does so again in a fresh template; a one-off is a harness failure (exit 2)
                o2 = driver.one(*otasks[i])
                if "harness_error" in o2:
                    r.setdefault("violations", []).append({
                        "clause": "C07.O-diff", "signature": "C07/-O-diff/world-failed-under-O", "step": 0,
                        "detail": {"python": "completed", "python_O": str(o2["harness_error"]).strip()[-200:]}})
                    continue
                o = o2
            c = r.setdefault("counters", {})
            c["C07.O-diff.checked"] = c.get("C07.O-diff.checked", 0) + 1
            if r.get("digest") != o.get("digest"):
                qa, qb = r.get("queries") or {}, o.get("queries") or {}
                diff = [k for k in sorted(set(qa) | set(qb), key=lambda x: int(x)) if qa.get(k) != qb.get(k)]
                cls = (r.get("query_classes") or {}).get(diff[0], "?") if diff else "no-query"
                r.setdefault("violations", []).append({
                    "clause": "C07.O-diff", "signature": "C07/-O-diff/" + cls, "step": 0,
                    "detail": {"first_differing_query": diff[:1], "python": qa.get(diff[0]) if diff else None,
                               "python_O": qb.get(diff[0]) if diff else None}})

    def run_one(self, template, req):
        res = template.request(req)
        if "harness_error" in res:
            return res
        ot = driver.Template(dict(template.boot, opt=True))
        try:
            o = ot.request(req)
        finally:
            ot.close()
        if "harness_error" in o:
            return o
        if res.get("digest") != o.get("digest"):
            qa, qb = res.get("queries") or {}, o.get("queries") or {}
            diff = [k for k in sorted(set(qa) | set(qb), key=lambda x: int(x)) if qa.get(k) != qb.get(k)]
            cls = (res.get("query_classes") or {}).get(diff[0], "?") if diff else "no-query"
            res.setdefault("violations", []).append({
                "clause": "C07.O-diff", "signature": "C07/-O-diff/" + cls, "step": 0,
                "detail": {"first_differing_query": diff[:1], "python": qa.get(diff[0]) if diff else None,
                           "python_O": qb.get(diff[0]) if diff else None}})
        return res

    def evidence(self, tier, seed, t0, tasks, results, by_sig, known_seen, st, **kw):
        extra = kw.pop("extra", None) or {}
        extra["runs_repeated_under_python_O"] = getattr(self, "opt_runs", 0)
        super().evidence(tier, seed, t0, tasks, results, by_sig, known_seen, st, extra=extra, **kw)


class C02Plan(RunPlan):
    prop = "C02"
    expected_reach = ('F4', 'F5', 'same-normal-form-seen-again', 'C02.scale.checked')
    engine = "A"
    quick_runs = 2500
    thorough_runs = 100000
    rule = ("one evaluation = one simulated history (<=60 ops) of expression evaluations over units, prefixes and "
            "dimensions (both sides of every group law as separate evaluations at different points of the history, "
            "plus random trees with * / ** root) interleaved with everything else that enters the intern tables: "
            "definitions, naming of already-interned compounds, as_ratio, rendering, parsing, pickle/copy/JSON round "
            "trips, a process restart with decode-before-rebuild, cache eviction, one async exception. Oracle: a table "
            "model normal form -> first object seen in this world; every later value with that normal form must be "
            "the very same object (is), neutral elements must be One/IdentityPrefix/Number, a law instance the model "
            "says is defined must not be refused; mixed-base prefix arithmetic is held to 1e-9 numerically. "
            "Non-trivial = >=1 identity check; distinct = distinct digests.")

    def params(self, tier):
        return {"late_imports": list(ALL_MODULES), "faults": True, "long": tier == "thorough"}


class C15Plan(RunPlan):
    prop = "C15"
    expected_reach = ('F5', 'blob-decoded-in-restarted-world', 'C15.load.after-restart.checked', 'decode-across-dimension-define')
    engine = "A"
    quick_runs = 2500
    thorough_runs = 60000
    rule = ("one evaluation = one simulated history (<=60 ops): values drawn from the pools (registered and freshly "
            "defined units, compounds, prefixed units, prefixes, dimensions, quantities with int/float/Decimal "
            "magnitudes) are round-tripped in-world through pickle protocols 2-5, copy, deepcopy, the JSON codec "
            "(explicit classes, codecs_installed() nested, install()/uninstall()), and dumped to blobs (pickle, JSON, "
            "SQL composite form) that are loaded later - after aliases, further definitions and cache evictions, and "
            "in ~1/3 of the runs after a process restart (F5): a second world forked from the template replays only "
            "the definitions, decodes the blobs BEFORE rebuilding the same expressions, and both must be one object. "
            "Oracle: identity (is) for dimension/prefix/unit with names/symbols unchanged, equal value and magnitude "
            "type for quantities (identical unit object for pickle/copy), codec global state restored, normal-form "
            "identity table across load and rebuild. Non-trivial = >=1 round trip or load checked.")

    def params(self, tier):
        return {"late_imports": list(ALL_MODULES), "faults": True, "long": tier == "thorough"}

    def nontrivial(self, r):
        c = r.get("counters", {})
        return c.get("C15.roundtrip.checked", 0) + c.get("C15.load.checked", 0) > 0


class C13Plan(RunPlan):
    prop = "C13"
    expected_reach = ('parsed-to-equal-named-unit', 'spelling-became-ambiguous-after-generation', 'C13.spelling.checked', 'C13.sweep.checked',
                      'C13.lookup-history.checked', 'C13.lookup-history.early-lookups-resolved')
    engine = "A"
    quick_runs = 2500
    thorough_runs = 60000
    rule = ("one evaluation = one simulated history (<=60 ops) in a seeded boot configuration (all modules, single "
            "modules, seeded import orders/subsets, with the boot tracer so that the sizes of shipped units are "
            "known): units from the C13 space (registered prefix x registered unit x exponent, products of up to 3, "
            "built in seeded multiplication orders) and quantities over them are rendered with str() and parsed back "
            "- immediately and again later, after further definitions, aliases, late imports of unit modules and "
            "adversarial definitions whose symbol equals <prefix symbol><unit symbol>; the parsed unit must have the "
            "model normal form (same object; an equal named unit such as kg accepted by solved size), a quantity must "
            "be equal; and groups of alternative spellings of one term list (^n / superscripts, * / dot / spaces, a/b "
            "/ negative exponents, symbols / names) must parse to one object with the model normal form. Renderings "
            "in the known classes (magnitude-emitted, symbol-less prefix, ambiguous text) are listed findings. "
            "Non-trivial = >=1 round trip or spelling checked.")

    def boots(self, tier, seed):
        bs = std_boots(seed, 3 if tier == "quick" else 10)
        if tier == "thorough":
            bs += [{"imports": [m], "trace": False, "opt": False, "hashseed": 0} for m in ALL_MODULES]
        return [dict(b, trace=True) for b in bs]

    def params(self, tier):
        return {"late_imports": list(ALL_MODULES), "faults": False, "long": tier == "thorough"}

    def nontrivial(self, r):
        c = r.get("counters", {})
        return c.get("C13.roundtrip.checked", 0) + c.get("C13.spelling.checked", 0) + \
            c.get("C13.sweep.checked", 0) > 0

    def extra_checks(self, tier, seed, pool, findings):
        boots = self.boots(tier, seed)
        res = pool.run([(b, {"engine": "BOOT", "what": "c13_sweep", "timeout": 600}) for b in boots])
        violations, total, ok = [], 0, 0
        per_class = {}
        for b, r in zip(boots, res):
            if "harness_error" in r:
                raise driver.HarnessError(r["harness_error"])
            total += r["counters"]["C13.sweep.checked"]
            ok += r["counters"]["C13.sweep.ok"]
            for k, v in r["counters"].items():
                if k.startswith("C13/"):
                    per_class[k] = per_class.get(k, 0) + v
            for v in r["violations"]:
                violations.append(dict(v, boot=b, request={"engine": "BOOT", "what": "c13_sweep", "timeout": 600}))
        # ---- lookups before and after late imports (differential against a twin world)
        import random

        from sim.util import h64

        t = driver.Template({"imports": list(ALL_MODULES), "trace": False, "opt": False, "hashseed": 0})
        try:
            snap = t.request({"kind": "bootinfo"})["snapshot"]
        finally:
            t.close()
        texts = sorted(set(x for x in snap["unit_symbols"] if x) | set(n for n in snap["units"] if " " not in n))
        rng = random.Random(h64(seed, "c13-late"))
        partial = [["si"], ["si", "us"], ["si", "iec", "computing"]]
        for _ in range(3 if tier == "quick" else 16):
            mods = list(ALL_MODULES)
            rng.shuffle(mods)
            partial.append(["si"] + [m for m in mods[:rng.randint(1, 8)] if m != "si"])
        ltasks = []
        for mods in partial:
            late = [m for m in ALL_MODULES if m not in mods]
            rng.shuffle(late)
            ltasks.append(({"imports": mods, "trace": False, "opt": False, "hashseed": 0},
                           {"engine": "BOOT", "what": "c13_late_lookup", "texts": texts, "late": late,
                            "timeout": 600}))
        lres = pool.run(ltasks)
        lookups = 0
        for (b, rq), r in zip(ltasks, lres):
            if "harness_error" in r:
                raise driver.HarnessError(r["harness_error"])
            lookups += r["counters"]["C13.lookup-history.checked"]
            for v in r["violations"]:
                violations.append(dict(v, boot=b, request=rq))
        self.sweep_results = res + lres
        seen, uniq = set(), []
        for v in violations:
            if v["signature"] not in seen:
                seen.add(v["signature"])
                uniq.append(v)
        return uniq, {"exhaustive_sweep": {"exhaustive": True, "boots": len(boots),
                                           "prefix_x_unit_x_exponent_cases": total, "parsed_to_same_object": ok,
                                           "by_class": per_class},
                      "lookup_history": {"partial_boots": len(partial), "texts_per_boot": len(texts),
                                         "lookups_compared_with_twin_world": lookups}}

    def evidence(self, tier, seed, t0, tasks, results, by_sig, known_seen, st, **kw):
        sweep = getattr(self, "sweep_results", None) or []
        super().evidence(tier, seed, t0, tasks + [(tasks[0][0], {})] * len(sweep) if tasks else tasks,
                         results + sweep, by_sig, known_seen, st, **kw)


class C09Plan(RunPlan):
    prop = "C09"
    engine = "BOOT"
    selftest_quick = 4
    selftest_thorough = 16
    rule = ("one evaluation = one observed boot: the real import of the shipped modules under the boot tracer for "
            "one boot configuration (default order, every module alone, seeded import orders/subsets), whose "
            "recorded declaration history (every equate/translate call with module and line, including declarations "
            "later overwritten) is analysed exhaustively: sizes of all named units are solved from the anchors in "
            "canonical (module,line) order with exact rationals, every remaining declaration closes a cycle and must "
            "have residual <= 1e-5 per degree; then, in a forked world of that boot, every named base unit with a "
            "physical dimension is converted to and from the coherent SI product of its dimension and compared with "
            "the solved size. exhaustive over the declared edges and named units of each boot; the boots are sampled. "
            "Non-trivial = a boot with >=1 cycle edge checked; distinct = distinct digests (declaration sets).")
    components = {
        "real": ["measured (entire package, real import)", "conversions planner (for the SI connectivity clause)"],
        "simulated": ["boot configurations (import order/subset, PYTHONHASHSEED)", "fresh world per boot (fork)"],
        "stub": [],
    }

    def boots(self, tier, seed):
        import random

        from sim.util import h64

        boots = [{"imports": list(ALL_MODULES), "trace": True, "opt": False, "hashseed": 0}]
        singles = [{"imports": [m], "trace": True, "opt": False, "hashseed": 0} for m in ALL_MODULES]
        rng = random.Random(h64(seed, "c09-boots"))
        perms = []
        for _ in range(6 if tier == "quick" else 280):
            mods = list(ALL_MODULES)
            rng.shuffle(mods)
            k = rng.randint(2, len(mods))
            perms.append({"imports": mods[:k], "trace": True, "opt": False, "hashseed": 0})
        if tier == "quick":
            rng.shuffle(singles)
            return boots + singles[:5] + perms
        return boots + singles + perms

    def check(self, tier, seed, args, t0):
        self._tier = tier
        return super().check(tier, seed, args, t0)

    def request(self, run_seed, boot):
        return {"engine": "BOOT", "what": "c09", "timeout": 300}

    def nontrivial(self, r):
        return r.get("counters", {}).get("C09.cycle_edges.checked", 0) > 0

    def check_tasks(self, tier, seed, n):
        return [(b, self.request(0, b)) for b in self.boots(tier, seed)]

    def replay(self, rp):
        return driver.one(rp["boot"], dict(rp["request"]))

    def minimise_and_write(self, sig, task, result, v):
        boot, req = task
        # minimise the boot: fewest modules that still show the violation
        mods = list(boot["imports"])
        t_evals = 0

        def test(ms):
            nonlocal t_evals
            t_evals += 1
            r = driver.one(dict(boot, imports=ms), req)
            return any(x["signature"] == sig for x in r.get("violations", []))

        i = 0
        while i < len(mods) and len(mods) > 1 and t_evals < 14:
            cand = mods[:i] + mods[i + 1:]
            if test(cand):
                mods = cand
            else:
                i += 1
        b2 = dict(boot, imports=mods)
        final = driver.one(b2, req)
        rp = {"property": "C09", "signature": sig, "boot": b2, "request": req,
              "expect": {"signature": sig, "digest": final.get("digest")},
              "violation": [x for x in final.get("violations", []) if x["signature"] == sig][:1],
              "source_hashes": source_hashes()}
        d = os.path.join(REPLAY_DIR, "C09")
        os.makedirs(d, exist_ok=True)
        from sim.plans import safe_name

        path = os.path.join(d, safe_name(sig, None))
        with open(path, "w") as f:
            json.dump(rp, f, indent=1)
        self.last_replay_reproduced = any(x["signature"] == sig for x in final.get("violations", []))
        return path

    def samples(self, tasks, results):
        out_ = []
        for (b, req), r in list(zip(tasks, results))[:3]:
            out_.append({"boot_imports": b["imports"], "declarations": r.get("counters", {}).get("C09.declarations"),
                         "cycle_edges": r.get("counters", {}).get("C09.cycle_edges.checked"),
                         "units_converted_to_and_from_SI": r.get("counters", {}).get("C09.si.units.checked"),
                         "digest": r.get("digest")})
        return out_


PLANS = {"C20": C20Plan, "C19": C19Plan, "C08": C08Plan, "C04": C04Plan, "C05": C05Plan, "C07": C07Plan,
         "C09": C09Plan, "C02": C02Plan, "C15": C15Plan, "C13": C13Plan}
