"""Plans for the properties beyond C01."""
import json
import os

from sim import driver
from sim.boot import ALL_MODULES
from sim.plans import RunPlan, std_boots
from sim.report import out
from sim.util import REPLAY_DIR, canon, source_hashes


class C20Plan(RunPlan):
    prop = "C20"
    engine = "T"
    quick_runs = 3000
    thorough_runs = 400000
    rule = ("one evaluation = one simulated run: 2-3 real threads under the baton scheduler, each "
            "evaluating 1-4 expressions denoting dimensions/prefixes/units/logarithms not yet interned "
            "in a fresh forked world (same or merely equal-valued expressions per thread); every line "
            "event (per run optionally every opcode inside the __new__ methods) in measured/*.py is a "
            "pre-emption point decided by the seeded scheduler (uniform / PCT d<=3 / sticky). Oracle: "
            "one object per structural key among everything the interning constructors returned, "
            "thread results identical, later evaluation returns the same object, all slots initialised. "
            "Non-trivial = at least one key checked and at least one context switch; distinct = distinct "
            "event-log digests (schedule decisions + results).")
    components = {
        "real": ["measured (entire package)", "CPython threads (real, one runnable at a time)"],
        "simulated": ["thread scheduler (baton passing at line/opcode events via sys.settrace)",
                      "locks created by the library (SimLock seam patched into threading during import)"],
        "stub": [],
    }

    def boots(self, tier, seed):
        return std_boots(seed, 1 if tier == "quick" else 4)[:1 if tier == "quick" else None]

    def request(self, run_seed, boot):
        return {"engine": "T", "prop": "C20", "seed": run_seed, "params": {}, "timeout": 180}

    def nontrivial(self, r):
        return r.get("counters", {}).get("C20.keys.checked", 0) > 0 and \
            r.get("probes", {}).get("context_switches", 0) > 0

    def replay(self, rp):
        return driver.one(rp["boot"], dict(rp["request"]))

    def evidence(self, tier, seed, t0, tasks, results, by_sig, known_seen, st, **kw):
        inter = {r.get("interleaving") for r in results if r and "interleaving" in r}
        extra = kw.pop("extra", None) or {}
        extra["distinct_interleavings"] = len(inter)
        extra["distinct_interleavings_measure"] = "distinct SHA-256 of the context-switch sequence (thread, qualname, line) per run"
        super().evidence(tier, seed, t0, tasks, results, by_sig, known_seen, st, extra=extra, **kw)

    def samples(self, tasks, results):
        outp = []
        for i, r in enumerate(results):
            if r and "harness_error" not in r and self.nontrivial(r):
                b, req = tasks[i]
                try:
                    rr = driver.one(b, dict(req, want_ops=True))
                    outp.append({"seed": req["seed"], "program": rr.get("ops"),
                                 "schedule": "".join(str(x) for x in rr.get("schedule") or []),
                                 "digest": rr.get("digest")})
                except driver.HarnessError:
                    pass
                if len(outp) >= 3:
                    break
        return outp or [{"note": "no non-trivial run"}]

    def minimise_and_write(self, sig, task, result, v):
        boot, req = task
        t = driver.Template(boot)
        evals = 0
        try:
            full = t.request(dict(req, want_ops=True))
            program, schedule = full["ops"], full["schedule"]

            def test(prog, sched):
                nonlocal evals
                evals += 1
                r = t.request({"engine": "T", "prop": "C20", "program": prog, "schedule": sched,
                               "timeout": 180})
                return any(x["signature"] == sig for x in r.get("violations", []))

            if test(program, schedule):
                # fewer expressions
                changed = True
                while changed and evals < 300:
                    changed = False
                    n = max(len(p) for p in program["threads"])
                    for ei in range(n):
                        cand = dict(program, threads=[p[:ei] + p[ei + 1:] for p in program["threads"]])
                        if any(cand["threads"]) and all(len(p) for p in cand["threads"]) and test(cand, schedule):
                            program = cand
                            changed = True
                            break
                if len(program["threads"]) > 2:
                    for ti in range(len(program["threads"])):
                        cand = dict(program, threads=program["threads"][:ti] + program["threads"][ti + 1:])
                        remap = [x for x in schedule if x != ti]
                        remap = [x - 1 if x > ti else x for x in remap]
                        if test(cand, remap):
                            program, schedule = cand, remap
                            break
                # fewer context switches: merge run-length segments
                segs = []
                for x in schedule:
                    if segs and segs[-1][0] == x:
                        segs[-1][1] += 1
                    else:
                        segs.append([x, 1])
                i = 1
                while i < len(segs) - 1 and evals < 600:
                    # move segment i's steps after segment i+1 (which merges i-1 and i+1 if same thread)
                    cand = segs[:i] + segs[i + 1:i + 2] + [segs[i]] + segs[i + 2:]
                    flat = [x for x, n in cand for _ in range(n)]
                    if test(program, flat):
                        merged = []
                        for x, n in cand:
                            if merged and merged[-1][0] == x:
                                merged[-1][1] += n
                            else:
                                merged.append([x, n])
                        segs = merged
                    else:
                        i += 1
                schedule = [x for x, n in segs for _ in range(n)]
            final_req = {"engine": "T", "prop": "C20", "program": program, "schedule": schedule,
                         "timeout": 180}
            final = t.request(final_req)
        finally:
            t.close()
        rp = {
            "property": "C20", "signature": sig, "boot": boot, "request": final_req,
            "seed": req.get("seed"), "shrink_evaluations": evals,
            "context_switches": sum(1 for a, b in zip(schedule, schedule[1:]) if a != b),
            "expect": {"signature": sig, "digest": final.get("digest")},
            "violation": [x for x in final.get("violations", []) if x["signature"] == sig][:1],
            "source_hashes": source_hashes(),
        }
        d = os.path.join(REPLAY_DIR, "C20")
        os.makedirs(d, exist_ok=True)
        path = os.path.join(d, "%s-%d.json" % (sig.replace("/", "_"), req.get("seed") or 0))
        with open(path, "w") as f:
            json.dump(rp, f, indent=1)
        fresh = self.replay(rp)
        if not any(x["signature"] == sig for x in fresh.get("violations", [])):
            out("HARNESS-WARNING replay %s did not reproduce in a fresh process" % path)
        return path


class C19Plan(RunPlan):
    prop = "C19"
    engine = "A"
    level = "fault_enumeration"
    quick_runs = 1200
    thorough_runs = 60000
    rule = ("three parts. (1) ENUMERATED crash points (the fault_enumeration claim): for each call of the "
            "definitional corpus (sim/c19_corpus.py: every definitional entry point in each object state) "
            "and each boot, an asynchronous exception is injected at EVERY line-event ordinal 1..n executed "
            "in library code by that call, one fresh forked world per ordinal; clause (c) compares a deep "
            "registry snapshot taken after argument evaluation with the state after the raise. "
            "(2) seeded histories (exploration): <=60 operations mixing anonymous construction, naming in "
            "all orders, F1 validation failures (duplicate name / duplicate symbol / symbol with a space / both, "
            "in every argument position, on fresh and already-aliased objects), late imports, cache eviction and "
            "at most one F2; clauses (a),(b),(c) after every declaration. (3) the boot tracer's log of every "
            "shipped declaration under each boot (import orders/subsets): clauses (a),(b) for each declared "
            "name/symbol. evaluations = simulated runs of (1)+(2)+(3); a run is non-trivial if it evaluated >=1 "
            "clause; distinct = distinct event-log digests among them.")

    def params(self, tier):
        return {"late_imports": list(ALL_MODULES), "faults": True}

    def boots(self, tier, seed):
        return std_boots(seed, 2 if tier == "quick" else 8)

    def extra_checks(self, tier, seed, pool, findings):
        from sim import c19_corpus

        boots = self.boots(tier, seed)
        enum_boots = boots[:2] if tier == "quick" else boots
        violations = []
        ev = {}
        # ---- (3) shipped declarations under each boot (needs the boot tracer)
        decl_boots = [dict(b, trace=True) for b in boots]
        if tier == "thorough":
            decl_boots += [{"imports": [m], "trace": True, "opt": False, "hashseed": 0} for m in ALL_MODULES]
        res = pool.run([(b, {"engine": "BOOT", "what": "c19_declared", "timeout": 120}) for b in decl_boots])
        shipped_checked = 0
        for b, r in zip(decl_boots, res):
            if "harness_error" in r:
                raise driver.HarnessError(r["harness_error"])
            shipped_checked += r["counters"]["C19.shipped.checked"]
            for v in r["violations"]:
                violations.append(dict(v, boot=b, request={"engine": "BOOT", "what": "c19_declared"}))
        ev["shipped_declarations_checked"] = shipped_checked
        ev["shipped_declaration_boots"] = len(decl_boots)
        # ---- (1) exhaustive F2 enumeration
        snap_tasks = []
        for b in enum_boots:
            t = driver.Template(b)
            try:
                snap = t.request({"kind": "bootinfo"})["snapshot"]
            finally:
                t.close()
            for c in c19_corpus.corpus(snap):
                ops = c["setup"] + [dict(c["target"], inject={"ordinal": 0, "exc": "KeyboardInterrupt"})]
                snap_tasks.append((b, c, {"engine": "A", "prop": "C19", "ops": ops,
                                          "opts": {"want_log": True}, "timeout": 120}))
        counts = pool.run([(b, r) for b, c, r in snap_tasks])
        tasks = []
        meta = []
        calls = 0
        for (b, c, r0), res0 in zip(snap_tasks, counts):
            if "harness_error" in res0:
                raise driver.HarnessError(res0["harness_error"])
            rec = res0["log"][-1]
            n = rec.get("inject", {}).get("lines", 0)
            calls += 1
            for k in range(1, n + 1):
                exc = "KeyboardInterrupt" if k % 2 else "MemoryError"
                ops = c["setup"] + [dict(c["target"], inject={"ordinal": k, "exc": exc})]
                tasks.append((b, {"engine": "A", "prop": "C19", "ops": ops, "timeout": 120}))
                meta.append((c["name"], k, n))
        results = pool.run(tasks)
        sigs = {}
        fired = 0
        atomic = 0
        for (b, req), (cname, k, n), r in zip(tasks, meta, results):
            if "harness_error" in r:
                raise driver.HarnessError(r["harness_error"])
            fired += r.get("faults_fired", {}).get("F2", 0)
            vs = [v for v in r["violations"]]
            if not vs:
                atomic += 1
            for v in vs:
                sigs[v["signature"]] = sigs.get(v["signature"], 0) + 1
                violations.append(dict(v, boot=b, request=req,
                                       detail=dict(v.get("detail") or {}, corpus=cname, ordinal=k, of=n)))
        ev["f2_enumeration"] = {
            "exhaustive": True, "corpus_calls": calls, "boots": len(enum_boots),
            "crash_points_enumerated": len(tasks), "injections_fired": fired,
            "crash_points_leaving_registries_unchanged": atomic,
            "signatures": sigs,
        }
        self.enum_results = results
        # one VIOLATION per signature is enough
        seen = set()
        uniq = []
        for v in violations:
            if v["signature"] not in seen:
                seen.add(v["signature"])
                uniq.append(v)
        return uniq, ev

    def evidence(self, tier, seed, t0, tasks, results, by_sig, known_seen, st, **kw):
        extra = kw.get("extra") or {}
        enum = getattr(self, "enum_results", None) or []
        # enumerated runs count as evaluations too
        super().evidence(tier, seed, t0, tasks + [(tasks[0][0], {})] * len(enum) if tasks else tasks,
                         results + enum, by_sig, known_seen, st, **kw)


PLANS = {"C20": C20Plan, "C19": C19Plan}
