"""Plans for the properties beyond C01."""
import json
import os

from sim import driver
from sim.boot import ALL_MODULES
from sim.plans import RunPlan, std_boots
from sim.report import out
from sim.util import REPLAY_DIR, canon, source_hashes


class C20Plan(RunPlan):
    prop = "C20"
    engine = "T"
    quick_runs = 3000
    thorough_runs = 400000
    rule = ("one evaluation = one simulated run: 2-3 real threads under the baton scheduler, each "
            "evaluating 1-4 expressions denoting dimensions/prefixes/units/logarithms not yet interned "
            "in a fresh forked world (same or merely equal-valued expressions per thread); every line "
            "event (per run optionally every opcode inside the __new__ methods) in measured/*.py is a "
            "pre-emption point decided by the seeded scheduler (uniform / PCT d<=3 / sticky). Oracle: "
            "one object per structural key among everything the interning constructors returned, "
            "thread results identical, later evaluation returns the same object, all slots initialised. "
            "Non-trivial = at least one key checked and at least one context switch; distinct = distinct "
            "event-log digests (schedule decisions + results).")
    components = {
        "real": ["measured (entire package)", "CPython threads (real, one runnable at a time)"],
        "simulated": ["thread scheduler (baton passing at line/opcode events via sys.settrace)",
                      "locks created by the library (SimLock seam patched into threading during import)"],
        "stub": [],
    }

    def boots(self, tier, seed):
        return std_boots(seed, 1 if tier == "quick" else 4)[:1 if tier == "quick" else None]

    def request(self, run_seed, boot):
        return {"engine": "T", "prop": "C20", "seed": run_seed, "params": {}, "timeout": 180}

    def nontrivial(self, r):
        return r.get("counters", {}).get("C20.keys.checked", 0) > 0 and \
            r.get("probes", {}).get("context_switches", 0) > 0

    def replay(self, rp):
        return driver.one(rp["boot"], dict(rp["request"]))

    def evidence(self, tier, seed, t0, tasks, results, by_sig, known_seen, st, **kw):
        inter = {r.get("interleaving") for r in results if r and "interleaving" in r}
        extra = kw.pop("extra", None) or {}
        extra["distinct_interleavings"] = len(inter)
        extra["distinct_interleavings_measure"] = "distinct SHA-256 of the context-switch sequence (thread, qualname, line) per run"
        super().evidence(tier, seed, t0, tasks, results, by_sig, known_seen, st, extra=extra, **kw)

    def samples(self, tasks, results):
        outp = []
        for i, r in enumerate(results):
            if r and "harness_error" not in r and self.nontrivial(r):
                b, req = tasks[i]
                try:
                    rr = driver.one(b, dict(req, want_ops=True))
                    outp.append({"seed": req["seed"], "program": rr.get("ops"),
                                 "schedule": "".join(str(x) for x in rr.get("schedule") or []),
                                 "digest": rr.get("digest")})
                except driver.HarnessError:
                    pass
                if len(outp) >= 3:
                    break
        return outp or [{"note": "no non-trivial run"}]

    def minimise_and_write(self, sig, task, result, v):
        boot, req = task
        t = driver.Template(boot)
        evals = 0
        try:
            full = t.request(dict(req, want_ops=True))
            program, schedule = full["ops"], full["schedule"]

            def test(prog, sched):
                nonlocal evals
                evals += 1
                r = t.request({"engine": "T", "prop": "C20", "program": prog, "schedule": sched,
                               "timeout": 180})
                return any(x["signature"] == sig for x in r.get("violations", []))

            if test(program, schedule):
                # fewer expressions
                changed = True
                while changed and evals < 300:
                    changed = False
                    n = max(len(p) for p in program["threads"])
                    for ei in range(n):
                        cand = dict(program, threads=[p[:ei] + p[ei + 1:] for p in program["threads"]])
                        if any(cand["threads"]) and all(len(p) for p in cand["threads"]) and test(cand, schedule):
                            program = cand
                            changed = True
                            break
                if len(program["threads"]) > 2:
                    for ti in range(len(program["threads"])):
                        cand = dict(program, threads=program["threads"][:ti] + program["threads"][ti + 1:])
                        remap = [x for x in schedule if x != ti]
                        remap = [x - 1 if x > ti else x for x in remap]
                        if test(cand, remap):
                            program, schedule = cand, remap
                            break
                # fewer context switches: merge run-length segments
                segs = []
                for x in schedule:
                    if segs and segs[-1][0] == x:
                        segs[-1][1] += 1
                    else:
                        segs.append([x, 1])
                i = 1
                while i < len(segs) - 1 and evals < 600:
                    # move segment i's steps after segment i+1 (which merges i-1 and i+1 if same thread)
                    cand = segs[:i] + segs[i + 1:i + 2] + [segs[i]] + segs[i + 2:]
                    flat = [x for x, n in cand for _ in range(n)]
                    if test(program, flat):
                        merged = []
                        for x, n in cand:
                            if merged and merged[-1][0] == x:
                                merged[-1][1] += n
                            else:
                                merged.append([x, n])
                        segs = merged
                    else:
                        i += 1
                schedule = [x for x, n in segs for _ in range(n)]
            final_req = {"engine": "T", "prop": "C20", "program": program, "schedule": schedule,
                         "timeout": 180}
            final = t.request(final_req)
        finally:
            t.close()
        rp = {
            "property": "C20", "signature": sig, "boot": boot, "request": final_req,
            "seed": req.get("seed"), "shrink_evaluations": evals,
            "context_switches": sum(1 for a, b in zip(schedule, schedule[1:]) if a != b),
            "expect": {"signature": sig, "digest": final.get("digest")},
            "violation": [x for x in final.get("violations", []) if x["signature"] == sig][:1],
            "source_hashes": source_hashes(),
        }
        d = os.path.join(REPLAY_DIR, "C20")
        os.makedirs(d, exist_ok=True)
        path = os.path.join(d, "%s-%d.json" % (sig.replace("/", "_"), req.get("seed") or 0))
        with open(path, "w") as f:
            json.dump(rp, f, indent=1)
        fresh = self.replay(rp)
        if not any(x["signature"] == sig for x in fresh.get("violations", [])):
            out("HARNESS-WARNING replay %s did not reproduce in a fresh process" % path)
        return path


PLANS = {"C20": C20Plan}
