"""Seeded, model-driven generator of World A operation lists.

Which operation comes next and which earlier value it refers to is a function of
the seed and of the *model* state only (never of anything the library returned),
so a list means the same thing under replay and shrinking.
"""
import random

from sim import model as M

LETTERS = "abcdefghijklmnopqrstuvwxyz"

# units with mixed-sign derived dimensions and other doors worth visiting often
INTERESTING = [
    "g-force", "pound-force", "horsepower", "newton", "joule", "watt", "pascal",
    "volt", "ohm", "farad", "hertz", "gray", "knot", "jansky", "sverdrup",
    "poundal", "liter", "gallon", "acre", "hectare", "tesla", "henry", "lux",
    "katal", "ampere", "siemens", "weber", "kilogram", "byte", "baud",
]
COMMON = ["meter", "second", "gram", "coulomb", "kelvin", "mole", "candela",
          "foot", "inch", "mile", "minute", "hour", "pound", "radian", "bit", "one"]

MIXED_DIMS = ["speed", "acceleration", "force", "pressure", "energy", "power",
              "frequency", "current", "potential", "resistance", "flow"]
PLAIN_DIMS = ["length", "time", "mass", "area", "volume", "charge", "temperature"]


def letters(rng, n):
    return "".join(rng.choice(LETTERS) for _ in range(n))


class GenA:
    def __init__(self, seed, prop, snapshot, params):
        self.rng = random.Random(seed)
        self.prop = prop
        self.boot_dim_names = sorted(snapshot["dims"])
        self.params = params
        self.snap = snapshot
        self.model = M.ModelWorld(snapshot)
        self.ops = []
        self.next_id = 0
        self.units = []     # (ref, nf)
        self.qtys = []      # (ref, nf)
        self.dims = []      # (ref, mdim)
        self.prefixes = []  # (ref, mprefix)
        self.texts = []     # (ref, kind)
        self.pairs = []     # (ref, (nf, nf))
        self.blobs = []     # (ref, kind, nf)
        self.group_counter = 0
        self.meas = []
        self.dim_defines = 0
        self.unit_symbol = {n: (d["symbols"][0] if d.get("symbols") else None)
                            for n, d in snapshot["units"].items() if not d.get("half_built")}
        self.prefix_symbol = {n: v[2] for n, v in snapshot["prefixes"].items()}
        self.token_ref = {}  # synthetic base-unit token -> ref of its defining op
        self.restarted = False
        self.shipped_units = sorted(self.model.unit_names)
        self.shipped_prefixes = sorted(self.model.prefix_names)
        self.shipped_dims = sorted(self.model.dims)
        self.taken_names = set(self.model.unit_names) | set(self.model.prefix_names)
        self.taken_symbols = set(self.model.unit_symbols) | set(self.model.prefix_symbols)
        self.not_imported = [
            m for m in params.get("late_imports", []) if m not in snapshot.get("imports", [])
        ]

    # ------------------------------------------------------------ emit
    def emit(self, op):
        op["id"] = self.next_id
        self.next_id += 1
        self.ops.append(op)
        return ["r", op["id"]]

    def fresh_name(self):
        while True:
            n = "zz" + letters(self.rng, 4)
            if n not in self.taken_names and n not in self.taken_symbols:
                self.taken_names.add(n)
                self.taken_symbols.add(n)
                return n

    # ----------------------------------------------------------- choose
    def size_ok(self, nf):
        return len(nf[1]) <= 6 and all(abs(e) <= 8 for _, e in nf[1]) and all(
            abs(e) <= 60 for _, e in nf[0]
        )

    def leaf_unit(self):
        r = self.rng.random()
        pool = None
        if r < 0.35:
            pool = [n for n in INTERESTING if n in self.model.unit_names]
        elif r < 0.65:
            pool = [n for n in COMMON if n in self.model.unit_names]
        if not pool:
            pool = self.shipped_units
        n = self.rng.choice(pool)
        return ["u", n], self.model.unit_names[n]

    def any_unit(self, small=False):
        if self.units and self.rng.random() < 0.7:
            cands = self.units
            if small:
                cands = [x for x in self.units if len(x[1][1]) <= 3] or self.units
            # prefer recent values: chains make histories
            k = len(cands)
            i = k - 1 - int(self.rng.random() ** 2 * k)
            return cands[max(0, min(k - 1, i))]
        return self.leaf_unit()

    def any_prefix(self):
        if self.prefixes and self.rng.random() < 0.3:
            return self.rng.choice(self.prefixes)
        if not self.shipped_prefixes or self.rng.random() < 0.1:
            return ["p", ""], ()
        n = self.rng.choice(self.shipped_prefixes)
        return ["p", n], self.model.prefix_names[n]

    def any_dim(self, mixed=None):
        if self.dims and self.rng.random() < 0.3:
            return self.rng.choice(self.dims)
        if mixed is None:
            mixed = self.rng.random() < 0.6
        pool = [d for d in (MIXED_DIMS if mixed else PLAIN_DIMS) if d in self.model.dims]
        if not pool:
            pool = self.shipped_dims
        n = self.rng.choice(pool)
        return ["d", n], self.model.dims[n]

    def small_int(self, lo=-4, hi=4, nonzero=True):
        while True:
            n = self.rng.randint(lo, hi)
            if n or not nonzero:
                return n

    def magnitude(self):
        r = self.rng.random()
        if r < 0.4:
            return ["int", str(self.rng.choice([0, 1, 2, 3, 5, 7, 12, 100, -1, -4, 1000, 2 ** 53, 2 ** 53 + 1,
                                                -(2 ** 63), 10 ** 20, 123456789012345678901234567890]))]
        if r < 0.8:
            return ["float", repr(self.rng.choice([0.5, 1.5, 2.25, -3.75, 1e-3, 1e6, 0.1, 7.0]))]
        return ["dec", self.rng.choice(["1.5", "0.001", "12", "-2.50", "1E+3"])]

    # -------------------------------------------------------------- ops
    def g_define_unit(self):
        dref, md = self.any_dim()
        name = self.fresh_name()
        ref = self.emit({"op": "define_unit", "dim": dref, "name": name, "symbol": name})
        nf = self.model.define_unit(name, name, md)
        self.token_ref[name] = ref
        self.unit_symbol[name] = name
        self.units.append((ref, nf))

    def g_derive(self):
        cands = [x for x in self.units if len(x[1][1]) >= 2 and not x[1][0]]
        if not cands:
            return self.g_u_mul()
        ref, nf = self.rng.choice(cands)
        if nf in self.model.unit_names.values():
            return self.g_u_mul()
        name = self.fresh_name()
        r = self.emit({"op": "derive", "unit": ref, "name": name, "symbol": name})
        self.model.name_unit(nf, name, name)
        self.units.append((r, nf))

    def _push_unit(self, op, nf):
        if nf is None:
            self.emit(op)  # expected to be refused by the library; still executed
            return
        if not self.size_ok(nf):
            return
        ref = self.emit(op)
        self.units.append((ref, nf))

    def g_u_mul(self):
        (a, ma), (b, mb) = self.any_unit(True), self.any_unit(True)
        f = self.rng.choice(["u_mul", "u_mul", "u_div"])
        nf = M.u_mul(ma, mb) if f == "u_mul" else M.u_div(ma, mb)
        self._push_unit({"op": f, "a": a, "b": b}, nf)

    def g_u_pow(self):
        a, ma = self.any_unit(True)
        n = self.small_int(-4, 4, nonzero=self.rng.random() < 0.95)
        self._push_unit({"op": "u_pow", "a": a, "n": n}, M.u_pow(ma, n))

    def g_u_root(self):
        a, ma = self.any_unit()
        r = self.rng.random()
        if r < 0.6:
            # a degree that divides everything, if there is one
            exps = [e for _, e in ma[1]] + [int(e) for _, e in ma[0] if e.denominator == 1]
            cands = [n for n in (2, 3, 4, -2, -3, -1) if exps and all(e % n == 0 for e in exps)]
            n = self.rng.choice(cands) if cands else self.small_int(-3, 3)
        elif r < 0.7:
            n = 0
        else:
            n = self.small_int(-3, 3)
        self._push_unit({"op": "u_root", "a": a, "n": n}, M.u_root(ma, n))

    def g_pow_then_root(self):
        """(x**n).root(m) chains: the door through which roots of negative
        exponents are reached."""
        a, ma = self.any_unit(True)
        n = self.rng.choice([2, -2, 3, -3, 4, -4, 6])
        nf = M.u_pow(ma, n)
        if not self.size_ok(nf):
            return
        r1 = self.emit({"op": "u_pow", "a": a, "n": n})
        self.units.append((r1, nf))
        m = self.rng.choice([2, -2, 3, -3, n, -n])
        self._push_unit({"op": "u_root", "a": r1, "n": m}, M.u_root(nf, m))

    def g_p_mul_u(self):
        (p, mp), (u, mu) = self.any_prefix(), self.any_unit(True)
        self._push_unit({"op": "p_mul_u", "p": p, "u": u, "right": self.rng.random() < 0.3},
                        M.u_with_prefix(mp, mu))

    def g_as_ratio(self):
        u, mu = self.any_unit()
        ref = self.emit({"op": "as_ratio", "u": u})
        num, den = M.u_as_ratio(mu)
        self.pairs.append((ref, (num, den)))
        if self.rng.random() < 0.5:
            k = self.rng.randint(0, 1)
            r2 = self.emit({"op": "pick", "pair": ref, "which": k})
            self.units.append((r2, (num, den)[k]))

    def g_render(self):
        how = self.rng.choice(["str", "/", "/", "pretty", "mathml", "repr"])
        if self.qtys and self.rng.random() < 0.4:
            x, mx = self.rng.choice(self.qtys)
            kind = "qty"
        else:
            x, mx = self.any_unit()
            kind = "unit"
        ref = self.emit({"op": "render", "x": x, "kind": kind, "how": how})
        if how == "str":
            self.texts.append((ref, kind))

    def g_parse(self):
        if not self.texts:
            return self.g_render()
        t, kind = self.rng.choice(self.texts)
        self.emit({"op": "parse", "text": t, "kind": kind})

    def g_q_new(self):
        u, mu = self.any_unit(True)
        ref = self.emit({"op": "q_new", "m": self.magnitude(), "u": u,
                         "how": self.rng.choice(["mul", "rmul", "ctor"])})
        self.qtys.append((ref, mu))

    def any_qty(self):
        if not self.qtys:
            self.g_q_new()
        return self.rng.choice(self.qtys)

    def g_q_bin(self):
        (a, ma), (b, mb) = self.any_qty(), self.any_qty()
        f = self.rng.choice(["*", "/", "*", "/", "+", "-"])
        nf = {"*": M.u_mul(ma, mb), "/": M.u_div(ma, mb), "+": ma, "-": ma}[f]
        if not self.size_ok(nf):
            return
        ref = self.emit({"op": "q_bin", "f": f, "a": a, "b": b})
        self.qtys.append((ref, nf))

    def g_q_unit(self):
        (a, ma), (u, mu) = self.any_qty(), self.any_unit(True)
        f = self.rng.choice(["*", "/"])
        nf = M.u_mul(ma, mu) if f == "*" else M.u_div(ma, mu)
        if not self.size_ok(nf):
            return
        ref = self.emit({"op": "q_unit", "f": f, "a": a, "u": u})
        self.qtys.append((ref, nf))

    def g_q_pow(self):
        a, ma = self.any_qty()
        n = self.small_int(-3, 3)
        nf = M.u_pow(ma, n)
        if not self.size_ok(nf):
            return
        ref = self.emit({"op": "q_pow", "a": a, "n": n})
        self.qtys.append((ref, nf))

    def g_q_root(self):
        a, ma = self.any_qty()
        n = self.rng.choice([2, 3, -2, 2])
        nf = M.u_root(ma, n)
        ref = self.emit({"op": "q_root", "a": a, "n": n})
        if nf is not None:
            self.qtys.append((ref, nf))

    def g_quantify(self):
        u, mu = self.any_unit()
        ref = self.emit({"op": "quantify", "u": u})
        self.qtys.append((ref, M.u_unprefixed(mu)))

    def g_unprefixed(self):
        q, mq = self.any_qty()
        ref = self.emit({"op": "unprefixed", "q": q})
        self.qtys.append((ref, M.u_unprefixed(mq)))

    def g_q_unit_of(self):
        q, mq = self.any_qty()
        ref = self.emit({"op": "q_unit_of", "q": q})
        self.units.append((ref, mq))

    def g_convert(self):
        q, mq = self.any_qty()
        # a target of the same dimension, from the model
        d = self.model.dim_of(mq)
        cands = [x for x in self.units if self.model.dim_of(x[1]) == d and x[1] != mq]
        if cands and self.rng.random() < 0.7:
            u, mu = self.rng.choice(cands)
        else:
            same = [n for n in self.shipped_units
                    if self.model.dim_of(self.model.unit_names[n]) == d]
            if not same:
                return
            n = self.rng.choice(same)
            u, mu = ["u", n], self.model.unit_names[n]
        ref = self.emit({"op": "convert", "q": q, "u": u})
        self.qtys.append((ref, mu))

    def g_cmp(self):
        (a, ma), (b, mb) = self.any_qty(), self.any_qty()
        self.emit({"op": "cmp", "f": self.rng.choice(["==", "<"]), "a": a, "b": b})

    def g_roundtrip(self):
        codec = self.rng.choice(["pickle2", "pickle3", "pickle4", "pickle5", "copy", "deepcopy",
                                 "json", "json_ctx", "json_ctx_opts"])
        r = self.rng.random()
        if self.prop == "C15" and r < 0.12:
            p, mp = self.any_prefix()
            ref = self.emit({"op": "roundtrip", "x": p, "kind": "prefix", "codec": codec})
            self.prefixes.append((ref, mp))
            return
        if self.prop == "C15" and r < 0.24:
            d, md = self.any_dim()
            ref = self.emit({"op": "roundtrip", "x": d, "kind": "dim", "codec": codec})
            self.dims.append((ref, md))
            return
        if self.prop == "C15" and r < 0.32:
            x, mx = self.any_unit()
            self.emit({"op": "json_nested", "x": x, "kind": "unit",
                       "how": self.rng.choice(["nested", "install", "mixed"])})
            return
        if self.qtys and self.rng.random() < 0.3:
            x, mx = self.rng.choice(self.qtys)
            ref = self.emit({"op": "roundtrip", "x": x, "kind": "qty", "codec": codec})
            self.qtys.append((ref, mx))
        else:
            x, mx = self.any_unit()
            ref = self.emit({"op": "roundtrip", "x": x, "kind": "unit", "codec": codec})
            self.units.append((ref, mx))

    def g_evict(self):
        from sim.faults import CACHE_NAMES

        k = self.rng.randint(1, len(CACHE_NAMES))
        names = sorted(self.rng.sample(list(CACHE_NAMES), k))
        self.emit({"op": "evict", "caches": names})

    def g_import(self):
        if not self.not_imported:
            return
        m = self.not_imported.pop(self.rng.randrange(len(self.not_imported)))
        self.emit({"op": "import", "module": m})

    def g_d_ops(self):
        (a, ma), (b, mb) = self.any_dim(), self.any_dim()
        f = self.rng.choice(["*", "/"])
        md = M.d_mul(ma, mb) if f == "*" else M.d_div(ma, mb)
        if sum(abs(x) for x in md) > 8:
            return
        ref = self.emit({"op": "d_bin", "f": f, "a": a, "b": b})
        self.dims.append((ref, md))

    def g_p_ops(self):
        (a, ma), (b, mb) = self.any_prefix(), self.any_prefix()
        f = self.rng.choice(["*", "/"])
        mp = M.p_mul(ma, mb) if f == "*" else M.p_div(ma, mb)
        ref = self.emit({"op": "p_bin", "f": f, "a": a, "b": b})
        self.prefixes.append((ref, mp))


    # ------------------------------------------------ declarations with F1 faults
    FAULTS = ["none", "none", "none", "dup_name", "dup_symbol", "space", "dup_both"]

    def decl_names(self, fault, taken_names, taken_symbols):
        """(name, symbol) for a declaration with the given validation fault."""
        name = self.fresh_name()
        symbol = name
        if fault in ("dup_name", "dup_both") and taken_names:
            name = self.rng.choice(taken_names)
        if fault in ("dup_symbol", "dup_both") and taken_symbols:
            symbol = self.rng.choice(taken_symbols)
        if fault == "space":
            symbol = symbol[:2] + " " + symbol[2:]
        return name, symbol

    def unit_taken(self):
        return sorted(self.model.unit_names), sorted(s for s in self.model.unit_symbols if s)

    def g_decl_unit(self):
        fault = self.rng.choice(self.FAULTS)
        dref, md = self.any_dim()
        name, symbol = self.decl_names(fault, *self.unit_taken())
        entry = self.rng.choice(["define_unit", "dim_unit", "dim_unit"])
        op = {"op": entry, "dim": dref, "name": name, "symbol": symbol}
        if fault != "none":
            op["fault"] = fault
            self.emit(op)
            return
        ref = self.emit(op)
        self.token_ref[name] = ref
        self.units.append((ref, self.model.define_unit(name, symbol, md)))

    def _fresh_compound(self):
        """A compound that has (model-wise) no name yet; built before naming with
        probability 1/2 so that anonymous-then-named orders are covered."""
        for _ in range(5):
            (a, ma), (b, mb) = self.leaf_unit(), self.leaf_unit()
            n = self.rng.choice([2, 3, -1, -2, 4, 5])
            nf = M.u_mul(ma, M.u_pow(mb, n))
            if len(nf[1]) >= 1 and nf not in self.model.unit_names.values() and self.size_ok(nf):
                r1 = self.emit({"op": "u_pow", "a": b, "n": n})
                r2 = self.emit({"op": "u_mul", "a": a, "b": r1})
                self.units.append((r2, nf))
                return r2, nf
        return None, None

    def g_decl_derive(self):
        fault = self.rng.choice(self.FAULTS)
        cands = [x for x in self.units if x[1] not in self.model.unit_names.values() and len(x[1][1]) >= 1]
        if cands and self.rng.random() < 0.5:
            ref, nf = self.rng.choice(cands)
        else:
            ref, nf = self._fresh_compound()
            if ref is None:
                return
        name, symbol = self.decl_names(fault, *self.unit_taken())
        op = {"op": "derive", "unit": ref, "name": name, "symbol": symbol}
        if fault != "none":
            op["fault"] = fault
            self.emit(op)
            return
        r = self.emit(op)
        self.model.name_unit(nf, name, symbol)
        self.units.append((r, nf))

    def g_decl_alias(self):
        fault = self.rng.choice(self.FAULTS)
        if self.rng.random() < 0.5:
            ref, nf = self.leaf_unit()          # an already named (possibly aliased) unit
        else:
            ref, nf = self.any_unit()
        names, symbols = self.unit_taken()
        # never "duplicate" with the unit's own names: that is legal re-aliasing
        names = [n for n in names if self.model.unit_names[n] != nf]
        symbols = [x for x in symbols if self.model.unit_symbols[x] != nf]
        name, symbol = self.decl_names(fault, names, symbols)
        which = self.rng.choice(["both", "both", "name", "symbol"])
        op = {"op": "alias", "unit": ref}
        if which in ("both", "name") and fault not in ("dup_symbol", "space") or which == "both":
            op["name"] = name
        if which in ("both", "symbol") or fault in ("dup_symbol", "space", "dup_both"):
            op["symbol"] = symbol
        if fault == "dup_name":
            op["name"] = name
        if fault == "none" and self.rng.random() < 0.3:
            # a declaration that repeats one identifier the unit already has and adds a new
            # one of the other kind: the new one must be bound all the same
            own_n = sorted(n for n, v in self.model.unit_names.items() if v == nf)
            own_s = sorted(x for x, v in self.model.unit_symbols.items() if x and v == nf)
            if own_n and (not own_s or self.rng.random() < 0.5):
                op["name"], op["symbol"] = self.rng.choice(own_n), symbol
            elif own_s:
                op["name"], op["symbol"] = name, self.rng.choice(own_s)
        if fault != "none":
            op["fault"] = fault
            self.emit(op)
            return
        r = self.emit(op)
        self.model.name_unit(nf, op.get("name"), op.get("symbol"))
        self.units.append((r, nf))

    def g_decl_prefix(self):
        rng = self.rng
        fault = rng.choice(["none", "none", "none", "dup_name", "dup_symbol", "dup_both"])
        base = rng.choice([10, 10, 2, 3, 7])
        exp = rng.choice([31, 33, 35, 37, -31, -33, 41, 43, -41, 45, 47, -47, 51, 53, 0])
        mp = M.p_norm([(base, exp)])
        if exp == 0:
            # the identity prefix under another spelling: a taken name must still be refused,
            # and nothing may be re-bound
            fault = rng.choice(["dup_name", "dup_symbol", "dup_both"])
        if mp in self.model.prefix_names.values():
            return
        if rng.random() < 0.5:
            # the structure exists anonymously before it is named
            how = rng.random()
            if how < 0.5 or base not in (10, 2):
                r0 = self.emit({"op": "prefix_new", "base": base, "exp": exp})
            else:
                r0 = self.emit({"op": "prefix_new", "base": base, "exp": exp - 1})
                r1 = self.emit({"op": "prefix_new", "base": base, "exp": 1})
                r0 = self.emit({"op": "p_bin", "f": "*", "a": r0, "b": r1})
            self.prefixes.append((r0, mp))
        names = sorted(self.model.prefix_names)
        symbols = sorted(x for x in self.model.prefix_symbols if x)
        name, symbol = self.decl_names(fault, names, symbols)
        op = {"op": "prefix_new", "base": base, "exp": exp, "name": name, "symbol": symbol}
        if fault != "none":
            op["fault"] = fault
            self.emit(op)
            return
        r = self.emit(op)
        self.model.prefix_names[name] = mp
        self.model.prefix_symbols[symbol] = mp
        self.prefixes.append((r, mp))

    def g_decl_dim(self):
        rng = self.rng
        if rng.random() < 0.25:
            # a refused derive of a dimension that already has a name: its name stays bound
            named = sorted(self.model.dims)
            own = rng.choice(named)
            # only names the boot itself declared count as certainly taken (a declaration made
            # earlier in this history may have been interrupted by an injected exception)
            others = [n for n in self.boot_dim_names if self.model.dims[n] != self.model.dims[own]]
            if others:
                op = {"op": "dim_derive", "dim": ["d", own], "name": rng.choice(others), "fault": "dup_name"}
                if rng.random() < 0.5:
                    op["symbol"] = self.fresh_name().upper()[:3]
                self.emit(op)
                return
        fault = rng.choice(["none", "none", "dup_name"])
        (a, ma), (b, mb) = self.any_dim(), self.any_dim()
        n = rng.choice([3, 4, 5, -3, -4])
        md = M.d_mul(M.d_pow(ma, n), mb)
        if md in self.model.dims.values() or sum(abs(x) for x in md) > 14:
            return
        r1 = self.emit({"op": "d_pow", "a": a, "n": n})
        if rng.random() < 0.5:
            r2 = self.emit({"op": "d_bin", "f": "*", "a": r1, "b": b})
        else:
            r2 = self.emit({"op": "d_bin", "f": "*", "a": b, "b": r1})
        name = self.fresh_name()
        if fault == "dup_name":
            name = rng.choice(sorted(self.model.dims))
        op = {"op": "dim_derive", "dim": r2, "name": name}
        if rng.random() < 0.5:
            op["symbol"] = name.upper()[:3]
        if fault != "none":
            op["fault"] = fault
            self.emit(op)
            return
        r = self.emit(op)
        self.model.dims[name] = md
        self.dims.append((r, md))

    def g_decl_shadow(self):
        """A text is first looked up while it still reads as <prefix><unit>, then declared as
        the symbol of another unit (define / derive / second alias): from then on the lookup
        must return the declared unit."""
        rng = self.rng
        if not self.shipped_prefixes:
            return
        for _ in range(10):
            pn, n = rng.choice(self.shipped_prefixes), rng.choice(self.shipped_units)
            ps, us = self.prefix_symbol.get(pn), self.unit_symbol.get(n)
            if not ps or not us:
                continue
            text = ps + us
            if text in self.taken_symbols or text in self.taken_names or not self.symbol_ok(text):
                continue
            if self.model_resolve(text) != M.u_with_prefix(self.model.prefix_names[pn], self.model.unit_names[n]):
                continue
            self.group_counter += 1
            self.emit({"op": "parse", "literal": text, "kind": "unit", "group": self.group_counter,
                       "variant": "before-declaration",
                       "nf": M.nf_json(M.u_with_prefix(self.model.prefix_names[pn], self.model.unit_names[n])),
                       "ambiguous": False,
                       "term_texts": [[text, M.nf_json(M.u_with_prefix(self.model.prefix_names[pn],
                                                                        self.model.unit_names[n]))]]})
            self.taken_symbols.add(text)
            how = rng.choice(["define", "derive", "alias"])
            if how == "define":
                dref, md = self.any_dim()
                name = self.fresh_name()
                ref = self.emit({"op": "dim_unit", "dim": dref, "name": name, "symbol": text})
                self.token_ref[name] = ref
                self.unit_symbol[name] = text
                self.units.append((ref, self.model.define_unit(name, text, md)))
            elif how == "derive":
                ref, nf = self._fresh_compound()
                if ref is None:
                    return
                name = self.fresh_name()
                r = self.emit({"op": "derive", "unit": ref, "name": name, "symbol": text})
                self.model.name_unit(nf, name, text)
                self.units.append((r, nf))
            else:
                ref, nf = self.leaf_unit()
                r = self.emit({"op": "alias", "unit": ref, "symbol": text})
                self.model.name_unit(nf, None, text)
                self.units.append((r, nf))
            return

    def g_decl_scale(self):
        rng = self.rng
        fault = rng.choice(["none", "none", "dup_name", "dup_symbol", "space"])
        u, mu = self.any_unit(True)
        zero = self.emit({"op": "q_new", "m": ["float", "273.15"], "u": u, "how": "mul"})
        self.qtys.append((zero, mu))
        md = self.model.dim_of(mu)
        dims = [n for n, d in self.model.dims.items() if d == md]
        if rng.random() < 0.25:
            # a zero point measured in a unit of ANOTHER dimension: whatever the library makes of
            # it, a refusal must leave nothing behind
            dims = [n for n, d in sorted(self.model.dims.items()) if d != md]
            fault = "zero_other_dimension" if fault == "none" else fault
            md = self.model.dims[dims[0]] if dims else md
            dims = dims[:1]
        if not dims:
            return
        name, symbol = self.decl_names(fault if fault != "zero_other_dimension" else "none", *self.unit_taken())
        op = {"op": "scale", "dim": ["d", sorted(dims)[0]], "zero": zero, "name": name, "symbol": symbol}
        if fault == "zero_other_dimension":
            # accepted on the shipped code (no validation); if a version refuses it, clause (c) applies
            op["fault"] = fault
            r = self.emit(op)
            self.token_ref[name] = r
            self.units.append((r, self.model.define_unit(name, symbol, md)))
            return
        if fault != "none":
            op["fault"] = fault
            self.emit(op)
            return
        r = self.emit(op)
        self.units.append((r, self.model.define_unit(name, symbol, md)))


    # ------------------------------------------------------------ C02 laws
    def _u(self, op, nf):
        if nf is None or not self.size_ok(nf):
            return None
        ref = self.emit(op)
        self.units.append((ref, nf))
        return ref

    def g_law(self):
        """Both sides of one group law, as separate evaluations (same normal form,
        so the identity table must see one object)."""
        rng = self.rng
        (x, mx), (y, my), (z, mz) = self.any_unit(True), self.any_unit(True), self.any_unit(True)
        law = rng.choice(["pow_add", "pow_mul", "root", "root", "div", "inv", "comm", "assoc", "neutral",
                          "prefix_pow", "prefix_root", "dim_laws", "prefixed_unit", "prefix_only"])
        a, b = self.small_int(-3, 3), self.small_int(-3, 3)
        if self.prop == "C02" and rng.random() < 0.08:
            # F1: the same power asked with a float exponent first (refused or not, it must not
            # change what the integer expressions evaluate to afterwards)
            n = rng.choice([2, 3, 4, 5, 7, -2, -3])
            if rng.random() < 0.7:
                self.emit({"op": "pow_float", "kind": "unit", "a": x, "n": n})
                r1 = self._u({"op": "u_pow", "a": x, "n": n}, M.u_pow(mx, n))
                if r1:
                    self._u({"op": "u_root", "a": r1, "n": n}, mx)
            else:
                d, md = self.any_dim()
                self.emit({"op": "pow_float", "kind": "dim", "a": d, "n": n})
                r1 = self.emit({"op": "d_pow", "a": d, "n": n})
                r2 = self.emit({"op": "d_root", "a": r1, "n": n})
                self.dims += [(r1, M.d_pow(md, n)), (r2, md)]
            return
        if self.prop == "C02" and rng.random() < 0.06 and len(mx[1]) == 1 and not mx[0]:
            # scales far outside the range of a float: 10**-330 and 10**-360 are different
            # prefixes (both would be 0.0 as floats), over the same factors
            step = rng.choice([-30, -27, 30])
            n = rng.choice([11, 12, 13])
            p = self.emit({"op": "prefix_new", "base": 10, "exp": step})
            mp = M.p_norm([(10, step)])
            r0 = self.emit({"op": "p_mul_u", "p": p, "u": x})
            r1 = self.emit({"op": "u_pow", "a": r0, "n": n})
            r2 = self.emit({"op": "u_pow", "a": r0, "n": n + 1})
            r3 = self.emit({"op": "u_div", "a": r2, "b": x})
            r4 = self.emit({"op": "u_div", "a": r3, "b": r1})
            r5 = self.emit({"op": "u_mul", "a": r1, "b": r0})
            return
        if law == "pow_add":
            r1 = self._u({"op": "u_pow", "a": x, "n": a}, M.u_pow(mx, a))
            r2 = self._u({"op": "u_pow", "a": x, "n": b}, M.u_pow(mx, b))
            if r1 and r2:
                self._u({"op": "u_mul", "a": r1, "b": r2}, M.u_pow(mx, a + b))
                self._u({"op": "u_pow", "a": x, "n": a + b}, M.u_pow(mx, a + b))
        elif law == "pow_mul":
            r1 = self._u({"op": "u_pow", "a": x, "n": a}, M.u_pow(mx, a))
            if r1:
                self._u({"op": "u_pow", "a": r1, "n": b}, M.u_pow(mx, a * b))
                self._u({"op": "u_pow", "a": x, "n": a * b}, M.u_pow(mx, a * b))
        elif law == "root":
            n = rng.choice([2, 3, -2, -3, 4, -1, 1, 5])
            r1 = self._u({"op": "u_pow", "a": x, "n": n}, M.u_pow(mx, n))
            if r1:
                self._u({"op": "u_root", "a": r1, "n": n}, mx)
        elif law == "div":
            r1 = self._u({"op": "u_pow", "a": y, "n": -1}, M.u_pow(my, -1))
            self._u({"op": "u_div", "a": x, "b": y}, M.u_div(mx, my))
            if r1:
                self._u({"op": "u_mul", "a": x, "b": r1}, M.u_div(mx, my))
        elif law == "inv":
            r1 = self._u({"op": "u_pow", "a": x, "n": -1}, M.u_pow(mx, -1))
            if r1:
                self._u({"op": "u_mul", "a": x, "b": r1}, M.u_mul(mx, M.u_pow(mx, -1)))
                self._u({"op": "u_div", "a": x, "b": x}, M.u_div(mx, mx))
        elif law == "comm":
            self._u({"op": "u_mul", "a": x, "b": y}, M.u_mul(mx, my))
            self._u({"op": "u_mul", "a": y, "b": x}, M.u_mul(mx, my))
        elif law == "assoc":
            r1 = self._u({"op": "u_mul", "a": x, "b": y}, M.u_mul(mx, my))
            r2 = self._u({"op": "u_mul", "a": y, "b": z}, M.u_mul(my, mz))
            full = M.u_mul(M.u_mul(mx, my), mz)
            if r1:
                self._u({"op": "u_mul", "a": r1, "b": z}, full)
            if r2:
                self._u({"op": "u_mul", "a": x, "b": r2}, full)
        elif law == "neutral":
            one = ["u", "one"]
            self._u({"op": "u_mul", "a": x, "b": one}, mx)
            self._u({"op": "u_mul", "a": one, "b": x}, mx)
            self._u({"op": "u_div", "a": x, "b": one}, mx)
            self._u({"op": "p_mul_u", "p": ["p", ""], "u": x}, mx)
            self._u({"op": "u_pow", "a": x, "n": 1}, mx)
            self._u({"op": "u_pow", "a": x, "n": 0}, M.ONE)
        elif law == "prefix_only":
            # dimensionless units that carry only a prefix: (p*x)/x, p*One; then used further
            p, mp = self.any_prefix()
            po = (mp, ())
            r1 = self._u({"op": "p_mul_u", "p": p, "u": x}, M.u_with_prefix(mp, mx))
            r2 = self._u({"op": "u_div", "a": r1, "b": x}, po) if r1 else None
            r3 = self._u({"op": "p_mul_u", "p": p, "u": ["u", "one"]}, po)
            for r in (r2, r3):
                if r:
                    self._u({"op": "u_mul", "a": r, "b": y}, M.u_with_prefix(mp, my))
                    n = rng.choice([2, 3, -2])
                    rr = self._u({"op": "u_pow", "a": r, "n": n}, M.u_pow(po, n))
                    if rr:
                        self._u({"op": "u_root", "a": rr, "n": n}, po)
            self._u({"op": "p_mul_u", "p": p, "u": y}, M.u_with_prefix(mp, my))
        elif law == "prefixed_unit":
            (p, mp), (q, mq) = self.any_prefix(), self.any_prefix()
            r1 = self._u({"op": "p_mul_u", "p": p, "u": x}, M.u_with_prefix(mp, mx))
            r2 = self._u({"op": "p_mul_u", "p": q, "u": y}, M.u_with_prefix(mq, my))
            if r1 and r2:
                self._u({"op": "u_mul", "a": r1, "b": r2}, M.u_mul(M.u_with_prefix(mp, mx), M.u_with_prefix(mq, my)))
                self._u({"op": "u_div", "a": r1, "b": r2}, M.u_div(M.u_with_prefix(mp, mx), M.u_with_prefix(mq, my)))
                self._u({"op": "u_pow", "a": r1, "n": a}, M.u_pow(M.u_with_prefix(mp, mx), a))
        elif law in ("prefix_pow", "prefix_root"):
            (p, mp), (q, mq) = self.any_prefix(), self.any_prefix()
            if law == "prefix_pow":
                r1 = self.emit({"op": "p_pow", "a": p, "n": a})
                r2 = self.emit({"op": "p_pow", "a": p, "n": b})
                r3 = self.emit({"op": "p_bin", "f": "*", "a": r1, "b": r2})
                r4 = self.emit({"op": "p_pow", "a": p, "n": a + b})
                self.prefixes += [(r1, M.p_pow(mp, a)), (r2, M.p_pow(mp, b)), (r3, M.p_pow(mp, a + b)),
                                  (r4, M.p_pow(mp, a + b))]
                r5 = self.emit({"op": "p_bin", "f": "*", "a": p, "b": q})
                r6 = self.emit({"op": "p_bin", "f": "*", "a": q, "b": p})
                r7 = self.emit({"op": "p_bin", "f": "/", "a": r5, "b": q})
                self.prefixes += [(r5, M.p_mul(mp, mq)), (r6, M.p_mul(mp, mq)), (r7, mp)]
            else:
                n = rng.choice([2, 3, -2, 4, -1])
                r1 = self.emit({"op": "p_pow", "a": p, "n": n})
                r2 = self.emit({"op": "p_root", "a": r1, "n": n})
                self.prefixes += [(r1, M.p_pow(mp, n)), (r2, mp)]
        elif law == "dim_laws":
            (d, md), (e, me) = self.any_dim(), self.any_dim()
            n = rng.choice([2, 3, -2, -1])
            r1 = self.emit({"op": "d_pow", "a": d, "n": n})
            r2 = self.emit({"op": "d_root", "a": r1, "n": n})
            r3 = self.emit({"op": "d_bin", "f": "*", "a": d, "b": e})
            r4 = self.emit({"op": "d_bin", "f": "*", "a": e, "b": d})
            r5 = self.emit({"op": "d_bin", "f": "/", "a": r3, "b": e})
            r6 = self.emit({"op": "d_pow", "a": e, "n": -1})
            r7 = self.emit({"op": "d_bin", "f": "*", "a": d, "b": r6})
            r8 = self.emit({"op": "d_bin", "f": "/", "a": d, "b": e})
            self.dims += [(r1, M.d_pow(md, n)), (r2, md), (r3, M.d_mul(md, me)), (r4, M.d_mul(md, me)),
                          (r5, md), (r6, M.d_pow(me, -1)), (r7, M.d_div(md, me)), (r8, M.d_div(md, me))]

    def build_unit(self, nf, order_seed=None):
        """Ops that evaluate an expression with normal form nf from leaves/definitions."""
        items = list(nf[1])
        self.rng.shuffle(items)
        ref = None
        for t, e in items:
            r = self.token_ref.get(t) or ["u", t]
            if e != 1:
                r = self.emit({"op": "u_pow", "a": r, "n": e})
            ref = r if ref is None else self.emit({"op": "u_mul", "a": ref, "b": r})
        if ref is None:
            ref = ["u", "one"]
        for b, e in nf[0]:
            if e.denominator != 1:
                return None
            name = [n for n, v in sorted(self.model.prefix_names.items()) if v == ((b, e),)]
            if name:
                p = ["p", name[0]]
            else:
                p = self.emit({"op": "prefix_new", "base": b, "exp": int(e)})
            ref = self.emit({"op": "p_mul_u", "p": p, "u": ref})
        self.units.append((ref, nf))
        return ref

    # ------------------------------------------------- serialization / restart
    def g_twins(self):
        """Equal-valued quantities of one unit with different magnitude types (5, 5.0,
        Decimal('5')), each sent through JSON: the type must survive."""
        rng = self.rng
        u, mu = self.any_unit(True)
        v = rng.choice(["5", "2000", "0", "7", "12", "-3", "1000"])
        specs = [["int", v], ["float", repr(float(v))], ["dec", rng.choice([v, v + ".0", "%sE+0" % v])]]
        rng.shuffle(specs)
        for spec in specs[: rng.choice([2, 3])]:
            q = self.emit({"op": "q_new", "m": spec, "u": u, "how": rng.choice(["mul", "ctor"])})
            self.qtys.append((q, mu))
            how = rng.random()
            if how < 0.6:
                r = self.emit({"op": "roundtrip", "x": q, "kind": "qty",
                               "codec": rng.choice(["json", "json_ctx", "json"])})
                self.qtys.append((r, mu))
            else:
                b = self.emit({"op": "dump", "x": q, "kind": "qty", "codec": "json"})
                self.blobs.append((b, "qty", mu))
                r = self.emit({"op": "load", "blob": b})
                self.qtys.append((r, mu))

    def g_dim_define(self):
        """A new fundamental dimension (documented as allowed): every existing exponent tuple
        grows; then units of it and products with older units."""
        if self.dim_defines >= 2:
            return
        self.dim_defines += 1
        name = self.fresh_name()
        ref = self.emit({"op": "dim_define", "name": name, "symbol": name.upper()[:3]})
        n = len(self.model.fundamental)
        self.model.fundamental.append(name)
        md = (0,) * n + (1,)
        self.model.dims[name] = md
        self.dims.append((ref, md))
        uname = self.fresh_name()
        uref = self.emit({"op": "dim_unit", "dim": ref, "name": uname, "symbol": uname})
        self.token_ref[uname] = uref
        self.unit_symbol[uname] = uname
        nf = self.model.define_unit(uname, uname, md)
        self.units.append((uref, nf))
        (x, mx) = self.any_unit(True)
        self._u({"op": "u_mul", "a": x, "b": uref}, M.u_mul(mx, nf))

    def g_dim_epoch(self):
        """A dimension serialized in one "epoch" of the dimension system and decoded two
        fundamental dimensions later; then units of that dimension meet units of the newest one."""
        if self.dim_defines > 0:
            return
        rng = self.rng
        d, md = self.any_dim(mixed=True)
        codec = rng.choice(["pickle2", "pickle4", "pickle5", "json"])
        b = self.emit({"op": "dump", "x": d, "kind": "dim", "codec": codec})
        self.blobs.append((b, "dim", md))
        self.g_dim_define()
        self.g_dim_define()
        newest = self.units[-2][0] if len(self.units) >= 2 else None
        r = self.emit({"op": "load", "blob": b})
        self.dims.append((r, md))
        # units whose dimension is the decoded one, combined with the newest fundamental unit
        cands = [(n, self.model.unit_names[n]) for n in self.shipped_units
                 if self.model.dim_of(self.model.unit_names[n]) == md]
        new_units = [(ref, nf) for ref, nf in self.units if ref[0] == "r" and len(nf[1]) == 1
                     and nf[1][0][0] in self.token_ref and self.model.base_dim.get(nf[1][0][0], ()) and
                     len(self.model.base_dim[nf[1][0][0]]) > 9]
        if not new_units:
            return
        for n, nf in rng.sample(cands, min(2, len(cands))):
            nr, nnf = rng.choice(new_units)
            self._u({"op": "u_mul", "a": ["u", n], "b": nr}, M.u_mul(nf, nnf))
            self._u({"op": "u_div", "a": nr, "b": ["u", n]}, M.u_div(nnf, nf))
        # and dimension algebra with it
        r2 = self.emit({"op": "d_bin", "f": "*", "a": r, "b": self.dims[-2][0] if len(self.dims) >= 2 else r})

    def g_dim_roundtrip(self):
        d, md = self.any_dim()
        codec = self.rng.choice(["pickle2", "pickle4", "pickle5", "json"])
        ref = self.emit({"op": "dump", "x": d, "kind": "dim", "codec": codec})
        self.blobs.append((ref, "dim", md))

    def g_measurement(self):
        rng = self.rng
        q, mq = self.any_qty()
        m1 = self.emit({"op": "measure", "q": q, "unc": rng.choice([["float", "0.1"], ["int", "2"], ["float", "0.0"],
                                                                     ["dec", "0.05"]])})
        self.meas.append(m1)
        k = rng.random()
        if k < 0.5 and len(self.meas) >= 2:
            a, b = rng.sample(self.meas, 2)
            r = self.emit({"op": "meas_bin", "a": a, "b": b, "f": rng.choice(["+", "-", "*", "/", "==", "<"])})
            self.meas.append(r)
        elif k < 0.75:
            q2, _ = self.any_qty()
            r = self.emit({"op": "meas_bin", "a": m1, "b": q2, "bkind": "qty",
                           "f": rng.choice(["+", "-", "*", "/", "r-", "r/"])})
            self.meas.append(r)
        else:
            r = self.emit({"op": "meas_pow", "a": m1, "n": rng.choice([2, 3, -1, -2, 0])})
            self.meas.append(r)
        if rng.random() < 0.6:
            self.emit({"op": "meas_render", "x": rng.choice(self.meas),
                       "how": rng.choice(["str", "format", "mathml", "pretty"]),
                       "spec": rng.choice(["%.3f::/", "+.2f:.2f:/", "%", "+:.2f"])})

    def g_level(self):
        rng = self.rng
        q, mq = self.any_qty()
        lu = self.emit({"op": "logunit", "ref": q, "log": rng.choice(["decibel", "bel", "neper", "octave"]),
                        "prefix": rng.choice([None, None, "milli", "kilo", "centi"]) if self.shipped_prefixes else None})
        q2, _ = self.any_qty()
        if rng.random() < 0.5:
            lv = self.emit({"op": "level", "q": q2, "lu": lu, "how": "level"})
        else:
            lv = self.emit({"op": "level", "q": q2, "lu": lu, "how": "mul", "m": rng.choice([["int", "3"], ["float", "-20.0"]])})
        self.emit({"op": "level_quantify", "lv": lv})

    def g_cli(self):
        if len(self.snap.get("imports", [])) < 17:
            return self.g_render()
        q, mq = self.any_qty()
        self.emit({"op": "cli", "q": q})

    def g_dump(self):
        codec = self.rng.choice(["pickle2", "pickle3", "pickle4", "pickle5", "json", "json"])
        if self.qtys and self.rng.random() < 0.35:
            x, mx = self.rng.choice(self.qtys)
            if self.rng.random() < 0.2:
                codec = "composite"
            ref = self.emit({"op": "dump", "x": x, "kind": "qty", "codec": codec})
            self.blobs.append((ref, "qty", mx))
        else:
            x, mx = self.any_unit()
            ref = self.emit({"op": "dump", "x": x, "kind": "unit", "codec": codec})
            self.blobs.append((ref, "unit", mx))

    def g_load(self):
        if not self.blobs:
            return self.g_dump()
        b, kind, mx = self.rng.choice(self.blobs)
        ref = self.emit({"op": "load", "blob": b})
        if kind == "unit":
            self.units.append((ref, mx))
        elif kind == "dim":
            self.dims.append((ref, mx))
        else:
            self.qtys.append((ref, mx))

    def g_restart(self):
        if self.restarted or len(self.blobs) < 1:
            return self.g_dump()
        self.restarted = True
        self.emit({"op": "restart"})
        keep_kinds = {"define_unit", "dim_unit", "derive", "alias", "scale"}
        kept = {o["id"] for o in self.ops if o["op"] in keep_kinds and not o.get("fault") and "inject" not in o}
        self.units = [(r, m) for r, m in self.units if r[0] != "r" or r[1] in kept]
        self.qtys, self.texts, self.pairs, self.dims = [], [], [], [d for d in self.dims if d[0][0] != "r"]
        self.prefixes = [p for p in self.prefixes if p[0][0] != "r"]
        # decode first (the receiver has not built these values yet), then rebuild the
        # same expressions in this world: both must be one object
        blobs = list(self.blobs)
        self.rng.shuffle(blobs)
        for b, kind, mx in blobs[:6]:
            ref = self.emit({"op": "load", "blob": b})
            if kind == "unit":
                self.units.append((ref, mx))
                self.build_unit(mx)
            elif kind == "dim":
                self.dims.append((ref, mx))
            else:
                self.qtys.append((ref, mx))


    # ------------------------------------------------------------------ C13
    SYMBOL_RE = None

    def symbol_ok(self, text):
        import re

        if GenA.SYMBOL_RE is None:
            GenA.SYMBOL_RE = re.compile("^[1a-zA-Z\u00c5\u2090-\u209c\u0391-\u03c9\u2609.\u00b0()\\-]+$")
        return bool(text) and bool(GenA.SYMBOL_RE.match(text))

    def model_resolve(self, text):
        """The library's documented resolution order over the model's symbol tables."""
        if text in self.model.unit_symbols:
            return self.model.unit_symbols[text]
        for i in range(1, len(text)):
            p = self.model.prefix_symbols.get(text[:i])
            u = self.model.unit_symbols.get(text[i:])
            if p is not None and u is not None and text[:i]:
                return M.u_with_prefix(p, u)
        if text in self.model.unit_names:
            return self.model.unit_names[text]
        return None

    def c13_terms(self):
        rng = self.rng
        names = [n for n in self.shipped_units if self.unit_symbol.get(n)] + \
            [n for n in self.token_ref if n in self.model.unit_names]
        if not names:
            return None
        terms = []
        for _ in range(rng.choice([1, 1, 1, 2, 2, 3])):
            n = rng.choice(names)
            r = rng.random()
            pn = ""
            if r < 0.6 and self.shipped_prefixes:
                pn = rng.choice(self.shipped_prefixes)
            e = rng.choice([1, 1, 1, 2, 3, -1, -1, -2, -3, 4, -4, 12])
            if any(t[1] == n for t in terms):
                continue
            terms.append((pn, n, e))
        return terms or None

    def g_c13(self):
        rng = self.rng
        terms = self.c13_terms()
        if terms is None:
            return
        # build the unit, in a seeded multiplication order
        parts = []
        nf = M.ONE
        for pn, n, e in terms:
            ref = self.token_ref.get(n) or ["u", n]
            m = self.model.unit_names[n]
            if pn:
                ref = self.emit({"op": "p_mul_u", "p": ["p", pn], "u": ref, "right": rng.random() < 0.3})
                m = M.u_with_prefix(self.model.prefix_names[pn], m)
            if e != 1:
                ref = self.emit({"op": "u_pow", "a": ref, "n": e})
                m = M.u_pow(m, e)
            parts.append((ref, m))
            nf = M.u_mul(nf, m)
        if not self.size_ok(nf):
            return
        order = list(range(len(parts)))
        rng.shuffle(order)
        ref, cur = parts[order[0]]
        for i in order[1:]:
            cur = M.u_mul(cur, parts[i][1])
            ref = self.emit({"op": "u_mul", "a": ref, "b": parts[i][0]})
        self.units.append((ref, nf))
        r = rng.random()
        if r < 0.7:
            t = self.emit({"op": "render", "x": ref, "kind": "unit", "how": "str"})
            self.texts.append((t, "unit"))
            if rng.random() < 0.7:
                self.emit({"op": "parse", "text": t, "kind": "unit"})
        else:
            q = self.emit({"op": "q_new", "m": self.magnitude() if rng.random() < 0.7 else
                           ["float", repr(rng.choice([9.0, 13.0, 18.0, 26.0, 0.009, 1.1e-7, 123456.789]))],
                           "u": ref, "how": "mul"})
            self.qtys.append((q, nf))
            t = self.emit({"op": "render", "x": q, "kind": "qty", "how": "str"})
            self.texts.append((t, "qty"))
            if rng.random() < 0.8:
                self.emit({"op": "parse", "text": t, "kind": "qty"})
        if rng.random() < 0.5:
            self.spellings(terms, nf)

    def spellings(self, terms, nf):
        rng = self.rng
        SUP = {"-": "\u207b", "0": "\u2070", "1": "\u00b9", "2": "\u00b2", "3": "\u00b3", "4": "\u2074",
               "5": "\u2075", "6": "\u2076", "7": "\u2077", "8": "\u2078", "9": "\u2079"}
        texts = []
        term_texts = []
        amb = False
        for pn, n, e in terms:
            sym = self.unit_symbol.get(n)
            psym = self.prefix_symbol.get(pn, "") if pn else ""
            if sym is None or (pn and not psym):
                return
            t = psym + sym
            intended = M.u_with_prefix(self.model.prefix_names[pn], self.model.unit_names[n]) if pn \
                else self.model.unit_names[n]
            if not self.symbol_ok(t):
                return
            if self.model_resolve(t) != intended:
                amb = True
            texts.append((t, e, n, pn))
            term_texts.append([t, M.nf_json(intended)])
        self.group_counter += 1
        g = self.group_counter

        def term_text(t, e, style):
            if e == 1:
                return t
            if style == "caret":
                return "%s^%d" % (t, e)
            return t + "".join(SUP[c] for c in str(e))

        variants = []
        for style in ("caret", "super"):
            for sep in ("*", "\u22c5", " ", " * ", " \u22c5 "):
                variants.append(("neg-exp/%s/%r" % (style, sep),
                                 sep.join(term_text(t, e, style) for t, e, _, _ in texts)))
            num = [(t, e) for t, e, _, _ in texts if e > 0]
            den = [(t, -e) for t, e, _, _ in texts if e < 0]
            if num and den:
                for sep in ("*", "\u22c5", " "):
                    variants.append(("ratio/%s/%r" % (style, sep),
                                     sep.join(term_text(t, e, style) for t, e in num) + rng.choice(["/", " / "]) +
                                     sep.join(term_text(t, e, style) for t, e in den)))
        # registered names instead of symbols (unprefixed terms only)
        if all(not pn for _, _, _, pn in texts) and all(self.symbol_ok(n) for _, _, n, _ in texts):
            named_amb = any(self.model_resolve(n) != self.model.unit_names[n] for _, _, n, _ in texts)
            if not named_amb:
                variants.append(("names", " * ".join(term_text(n, e, "caret") for _, e, n, _ in texts)))
        rng.shuffle(variants)
        # reorder-independent: every variant keeps the term order, so all denote nf
        for name, text in variants[: rng.choice([2, 3, 4, 6])]:
            bases = {b for _, _, _, pn in texts if pn for b, _ in self.model.prefix_names[pn]}
            self.emit({"op": "parse", "literal": text, "kind": "unit", "group": g, "variant": name.split("/")[0],
                       "nf": M.nf_json(nf), "ambiguous": amb, "mixed": len(bases) > 1,
                       "term_texts": term_texts if not name.startswith("names") else
                       [[n, M.nf_json(self.model.unit_names[n])] for _, _, n, _ in texts]})

    def g_adversarial_symbol(self):
        """Define a unit whose symbol is <prefix symbol><existing unit symbol>."""
        rng = self.rng
        if not self.shipped_prefixes:
            return
        self._adversarial_followups = []
        self._adversarial_define()
        for (uref, pn) in self._adversarial_followups:
            n = uref[1]
            r1 = self.emit({"op": "p_mul_u", "p": ["p", pn], "u": ["u", n]})
            nf = M.u_with_prefix(self.model.prefix_names[pn], self.model.unit_names[n])
            self.units.append((r1, nf))
            t = self.emit({"op": "render", "x": r1, "kind": "unit", "how": "str"})
            self.texts.append((t, "unit"))
            self.emit({"op": "parse", "text": t, "kind": "unit"})

    def _adversarial_define(self):
        rng = self.rng
        for _ in range(10):
            pn = rng.choice(self.shipped_prefixes)
            n = rng.choice(self.shipped_units)
            ps, us = self.prefix_symbol.get(pn), self.unit_symbol.get(n)
            if not ps or not us:
                continue
            sym = ps + us
            if sym in self.taken_symbols or not self.symbol_ok(sym):
                continue
            dref, md = self.any_dim()
            name = self.fresh_name()
            # afterwards: the prefixed unit whose rendering now collides is rendered and parsed
            follow = [("u", n), pn]
            self._adversarial_followups.append(follow)
            if rng.random() < 0.4 and sym not in self.taken_names:
                # the colliding text is the *name* (names are resolved last: the prefixed
                # reading must keep winning)
                fresh_sym = name
                self.taken_names.add(sym)
                ref = self.emit({"op": "dim_unit", "dim": dref, "name": sym, "symbol": fresh_sym})
                self.token_ref[sym] = ref
                nfu = self.model.define_unit(sym, fresh_sym, md)
                self.unit_symbol[sym] = fresh_sym
                self.units.append((ref, nfu))
                return
            self.taken_symbols.add(sym)
            ref = self.emit({"op": "dim_unit", "dim": dref, "name": name, "symbol": sym})
            self.token_ref[name] = ref
            nfu = self.model.define_unit(name, sym, md)
            self.unit_symbol[name] = sym
            self.units.append((ref, nfu))
            return

    # --------------------------------------------------------- assembly
    WEIGHTS = {
        "C01": {
            "define_unit": 6, "derive": 2, "u_mul": 14, "u_pow": 8, "u_root": 6,
            "pow_then_root": 5, "p_mul_u": 5, "as_ratio": 10, "render": 10, "parse": 4,
            "q_new": 5, "q_bin": 5, "q_unit": 3, "q_pow": 2, "q_root": 2, "quantify": 3,
            "unprefixed": 2, "q_unit_of": 2, "convert": 5, "cmp": 3, "roundtrip": 4,
            "evict": 4, "import": 1, "d_ops": 2, "p_ops": 2, "dump": 3, "load": 2, "restart": 1.5,
            "dim_define": 0.7, "dim_roundtrip": 1.5, "dim_epoch": 0.8, "measurement": 3, "level": 2, "cli": 1.5,
        },
        "C02": {
            "law": 22, "define_unit": 4, "derive": 3, "u_mul": 8, "u_pow": 5, "u_root": 5, "pow_then_root": 4,
            "p_mul_u": 5, "as_ratio": 3, "render": 2, "parse": 2, "q_new": 2, "q_bin": 3, "q_unit": 2,
            "q_pow": 2, "quantify": 2, "unprefixed": 1, "q_unit_of": 2, "convert": 1, "roundtrip": 3,
            "evict": 4, "import": 1, "d_ops": 3, "p_ops": 4, "dump": 2, "load": 2, "restart": 1,
            "measurement": 2, "level": 1.5, "cli": 1,
        },
        "C13": {
            "c13": 30, "parse": 10, "adversarial_symbol": 3, "define_unit": 2, "decl_alias": 2, "derive": 2,
            "import": 3, "evict": 1, "u_mul": 3, "render": 4, "q_new": 2, "as_ratio": 1,
        },
        "C15": {
            "roundtrip": 22, "dump": 10, "load": 8, "restart": 3, "twins": 4, "dim_define": 0.7, "dim_roundtrip": 3, "dim_epoch": 0.8, "define_unit": 4, "derive": 3, "decl_alias": 3,
            "u_mul": 8, "u_pow": 5, "p_mul_u": 6, "u_root": 2, "as_ratio": 2, "q_new": 8, "q_bin": 3, "q_unit": 3,
            "q_pow": 2, "render": 2, "evict": 2, "import": 1, "d_ops": 3, "p_ops": 3,
        },
        "C19": {
            "decl_unit": 10, "decl_derive": 10, "decl_alias": 10, "decl_prefix": 8, "decl_dim": 5,
            "decl_scale": 4, "decl_shadow": 5, "u_mul": 6, "u_pow": 3, "p_mul_u": 3, "p_ops": 3, "d_ops": 3,
            "render": 3, "parse": 2, "q_new": 2, "convert": 2, "roundtrip": 3, "evict": 1, "import": 2,
            "as_ratio": 2,
        },
    }

    def generate(self):
        rng = self.rng
        w = dict(self.WEIGHTS.get(self.prop, self.WEIGHTS["C01"]))
        # swarm: scale every op kind by a random factor, some to zero
        for k in list(w):
            w[k] = w[k] * rng.choice([0, 0.5, 1, 1, 2, 3])
        if not any(w.values()):
            w["u_mul"] = 1
        kinds = sorted(w)
        weights = [w[k] for k in kinds]
        n_ops = rng.choice([8, 15, 25, 40, 60] if not self.params.get("long") else [15, 40, 60, 90, 120, 160])
        inject_at = None
        if self.params.get("faults", True) and rng.random() < 0.3:
            inject_at = rng.randrange(n_ops)
            # an asynchronous exception may leave a half-built Dimension registered (the library
            # registers in __new__ and initialises in __init__); a later Dimension.define iterates over
            # every known dimension and would die half-way, corrupting the whole dimension system - a
            # consequence of F2 no listed property is about.  So: either an injection or new
            # fundamental dimensions in one run, never both.
            for k in ("dim_define", "dim_epoch"):
                if k in w:
                    w[k] = 0
            weights = [w[k] for k in kinds]
            if not any(weights):
                w["u_mul"] = 1
                weights = [w[k] for k in kinds]
        guard = 0
        while len(self.ops) < n_ops and guard < n_ops * 10:
            guard += 1
            k = rng.choices(kinds, weights)[0]
            before = len(self.ops)
            getattr(self, "g_" + k)()
            if inject_at is not None and len(self.ops) > inject_at >= before:
                op = self.ops[inject_at]
                # never inside the process-global JSON codec context: an asynchronous exception
                # there leaks module state of the standard library's json, which is outside every
                # listed property and would poison the rest of the run
                # ... nor inside Dimension.define: interrupted half-way it leaves the exponent tuples of
                # all dimensions half re-keyed, a process-wide corruption no listed property is about
                if op["op"] not in ("evict", "import", "json_nested", "restart", "dim_define") and \
                        not str(op.get("codec", "")).startswith("json_ctx"):
                    op["inject"] = {
                        "ordinal": rng.choice([1, 2, 3, 5, 8, 13, 21, 34, 55, 89]),
                        "exc": rng.choice(["KeyboardInterrupt", "MemoryError"]),
                    }
                inject_at = None
        return self.ops


def generate(seed, prop, snapshot, params):
    return GenA(seed, prop, snapshot, params).generate()
