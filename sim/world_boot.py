"""BOOT engine: checks evaluated on the observed real import (boot tracer log +
final registries) of one boot configuration.  Runs in a forked child like every
other world so that it cannot disturb the template."""
from sim import registry
from sim import model as M
from sim.util import canon, digest


def _dim_eq(a, b):
    return M.d_norm(a) == M.d_norm(b)


def c19_declared(boot):
    """Clauses (a) and (b) of C19 for every name/symbol the shipped modules declared."""
    import measured as L

    from sim.boot import unit_desc

    violations = []
    checked = 0
    events = boot.events or []
    sym_decl = {}   # (kind, symbol) -> set of structural keys declared with it
    name_decl = {}

    def bad(sig, detail):
        violations.append({"clause": sig.split("/")[1], "signature": sig, "step": 0, "detail": detail})

    for ev in events:
        f = ev["f"]
        if "tracer_error" in ev:
            bad("C19/a/shipped/tracer-error", ev)
            continue
        name, symbol = ev.get("name"), ev.get("symbol")
        if f == "Prefix.__init__" and (name or symbol):
            key = (ev["base"], str(ev["exponent"]))
            checked += 1
            if name:
                name_decl.setdefault(("prefix", name), set()).add(key)
                p = L.Prefix._by_name.get(name)
                if p is None or (p.base, str(p.exponent)) != key or p.name != name:
                    bad("C19/a/shipped/prefix-name:" + name, {"declared_at": ev.get("site"), "key": key,
                        "bound_to": None if p is None else [p.base, str(p.exponent), p.name]})
            if symbol:
                sym_decl.setdefault(("prefix", symbol), set()).add(key)
                p = L.Prefix._by_symbol.get(symbol)
                if p is None or (p.base, str(p.exponent)) != key or p.symbol != symbol:
                    bad("C19/a/shipped/prefix-symbol:" + symbol, {"declared_at": ev.get("site"), "key": key,
                        "bound_to": None if p is None else [p.base, str(p.exponent), p.symbol]})
        elif f == "Unit.define":
            checked += 1
            u = L.Unit._by_name.get(name)
            key = ("base", name)
            name_decl.setdefault(("unit", name), set()).add(key)
            sym_decl.setdefault(("unit", symbol), set()).add(key)
            if u is None or name not in u.names or not _dim_eq(u.dimension.exponents, ev["dim"]):
                bad("C19/a/shipped/unit-name:" + name, {"declared_at": ev.get("site")})
            v = L.Unit._by_symbol.get(symbol)
            if v is None or v is not u or symbol not in v.symbols:
                bad("C19/a/shipped/unit-symbol:" + symbol, {"declared_at": ev.get("site"), "unit": name})
        elif f in ("Unit.derive", "Unit.alias") and (name or symbol):
            if ev["unit"].get("half_built") or any(t == "?" for t, _ in ev["unit"]["factors"]):
                # alias() called from Unit.__init__ of a unit under construction (define path)
                continue
            checked += 1
            d = ev["unit"]
            key = (tuple(d["prefix"]), tuple(map(tuple, d["factors"])))
            if name:
                name_decl.setdefault(("unit", name), set()).add(key)
                u = L.Unit._by_name.get(name)
                du = unit_desc(u) if u is not None else None
                if u is None or name not in u.names or (tuple(du["prefix"]), tuple(map(tuple, du["factors"]))) != key:
                    bad("C19/a/shipped/unit-name:" + name, {"declared_at": ev.get("site")})
            if symbol:
                sym_decl.setdefault(("unit", symbol), set()).add(key)
                u = L.Unit._by_symbol.get(symbol)
                du = unit_desc(u) if u is not None else None
                if u is None or symbol not in u.symbols or (tuple(du["prefix"]), tuple(map(tuple, du["factors"]))) != key:
                    bad("C19/a/shipped/unit-symbol:" + symbol, {"declared_at": ev.get("site")})
        elif f in ("Dimension.define", "Dimension.derive"):
            checked += 1
            d = L.Dimension._by_name.get(name)
            if d is None or d.name != name or (f == "Dimension.derive" and not _dim_eq(d.exponents, ev["dim"])):
                bad("C19/a/shipped/dimension-name:" + name, {"declared_at": ev.get("site")})
            if f == "Dimension.derive":
                name_decl.setdefault(("dimension", name), set()).add(tuple(M.d_norm(ev["dim"])))
    for (kind, n), keys in sorted(name_decl.items()):
        if len(keys) > 1:
            bad("C19/b/shipped-declared-twice/%s-name:%s" % (kind, n), {"objects": sorted(map(str, keys))})
    for (kind, s), keys in sorted(sym_decl.items()):
        if len(keys) > 1:
            bad("C19/b/shipped-declared-twice/%s-symbol:%s" % (kind, s), {"objects": sorted(map(str, keys))})
    for kind, n in registry.double_bindings(L):
        bad("C19/b/shipped/%s:%s" % (kind, n), {})
    return violations, checked


def c13_sweep(boot):
    """Exhaustive over one boot: every registered prefix x every unit that has a symbol x
    exponents {1,-1,2,-2,3}: str() then Unit.parse must give the same object (or an equal
    named unit); renderings in the known classes are reported under their class."""
    import measured as L

    from sim.clauses_c13 import render_class
    from sim.world_a import Interp

    I = Interp(boot, "none")
    sizes = getattr(boot, "shipped_sizes", None) or {}
    violations, seen = [], set()
    counters = {"C13.sweep.checked": 0, "C13.sweep.ok": 0}

    def size(nf):
        from fractions import Fraction
        v = M.p_value(nf[0])
        v = v if isinstance(v, Fraction) else Fraction(v)
        for t, e in nf[1]:
            if t not in sizes:
                return None
            v *= Fraction(sizes[t]) ** e
        return v

    def bad(sig, detail):
        if sig not in seen:
            seen.add(sig)
            violations.append({"clause": "C13.roundtrip", "signature": sig, "step": 0, "detail": detail})
        counters[sig.split(":")[0]] = counters.get(sig.split(":")[0], 0) + 1

    prefixes = [L.IdentityPrefix] + [p for _, p in sorted(L.Prefix._by_name.items())]
    units = [u for s_, u in sorted(L.Unit._by_symbol.items()) if u.symbol == s_]
    for p in prefixes:
        for u in units:
            for e in (1, -1, 2, -2, 3):
                try:
                    x = (p * u) ** e
                    text = str(x)
                except Exception as ex:
                    bad("C13/render-raised/%s" % type(ex).__name__, {"prefix": p.name, "unit": u.name, "e": e})
                    continue
                counters["C13.sweep.checked"] += 1
                cls = render_class(I, x) or "plain"
                try:
                    y = L.Unit.parse(text)
                except Exception as ex:
                    bad("C13/unparseable/%s" % cls, {"text": text, "prefix": p.name, "unit": u.name, "e": e,
                                                      "error": type(ex).__name__})
                    continue
                if y is x:
                    counters["C13.sweep.ok"] += 1
                    continue
                a, b = I.nf_of(x), I.nf_of(y)
                ok = False
                if a is not None and b is not None and tuple(x.dimension.exponents) == tuple(y.dimension.exponents):
                    q = size(M.u_div(a, b))
                    ok = q is not None and abs(float(q) - 1.0) <= 1e-9
                if ok:
                    counters["C13.sweep.equal-named-unit"] = counters.get("C13.sweep.equal-named-unit", 0) + 1
                else:
                    bad("C13/different/%s" % cls, {"text": text, "of": M.nf_str(a), "parsed": M.nf_str(b)})
    return violations, counters


def c13_late_lookup(boot, req):
    """Lookups must not depend on earlier lookups: every text in req["texts"] (the exact symbols
    and names of all shipped units) is parsed *before* the remaining modules are imported
    (where it may read as <prefix><unit> or not at all), then the modules in req["late"] are
    imported and every text is parsed again.  A twin world forked here skips the early lookups;
    both must report the same outcome for every text."""
    import importlib
    import json
    import os

    import measured as L

    texts, late = req["texts"], req["late"]

    def outcome(t):
        try:
            y = L.Unit.parse(t)
        except Exception as ex:
            return ["raise", type(ex).__name__]
        return ["ok", list(y.names), list(y.symbols), [y.prefix.base, str(y.prefix.exponent)],
                sorted([(f.names[0] if f.names else "?"), e] for f, e in y.factors.items())]

    def after_import():
        for m in late:
            importlib.import_module("measured." + m)
        return {t: outcome(t) for t in texts}

    r, w = os.pipe()
    pid = os.fork()
    if pid == 0:                                   # the twin without earlier lookups
        try:
            os.close(r)
            data = json.dumps(after_import()).encode()
            while data:
                n = os.write(w, data)
                data = data[n:]
        finally:
            os._exit(0)
    os.close(w)
    chunks = []
    while True:
        c = os.read(r, 1 << 16)
        if not c:
            break
        chunks.append(c)
    os.close(r)
    os.waitpid(pid, 0)
    if not chunks:
        raise RuntimeError("twin world produced nothing")
    base = json.loads(b"".join(chunks))
    early = 0
    for t in texts:
        try:
            L.Unit.parse(t)
            early += 1
        except Exception:
            pass
    mine = after_import()
    violations, seen = [], set()
    counters = {"C13.lookup-history.checked": len(texts), "C13.lookup-history.early-lookups-resolved": early,
                "C13.lookup-history.resolved-after-import": sum(1 for v in mine.values() if v[0] == "ok")}
    for t in texts:
        if mine[t] != base[t]:
            kind = "other-unit" if mine[t][0] == base[t][0] == "ok" else "raise-vs-ok"
            sig = "C13/lookup-history/" + kind
            counters[sig] = counters.get(sig, 0) + 1
            if sig not in seen:
                seen.add(sig)
                violations.append({"clause": "C13.lookup-history", "signature": sig, "step": 0,
                                   "detail": {"text": t, "with_earlier_lookups": mine[t],
                                              "without_earlier_lookups": base[t]}})
    return violations, counters


def run(req, boot):
    what = req["what"]
    if what == "c13_late_lookup":
        violations, counters = c13_late_lookup(boot, req)
        log = [canon({"counters": counters, "violations": sorted(v["signature"] for v in violations)})]
        return {"digest": digest(log), "n_ops": counters["C13.lookup-history.checked"], "violations": violations,
                "counters": counters, "probes": {}, "faults_fired": {"F6": 1}}
    if what == "c13_sweep":
        violations, counters = c13_sweep(boot)
        log = [canon({"counters": counters, "violations": sorted(v["signature"] for v in violations)})]
        return {"digest": digest(log), "n_ops": counters["C13.sweep.checked"], "violations": violations,
                "counters": counters, "probes": {}, "faults_fired": {}}
    if what == "c19_declared":
        violations, checked = c19_declared(boot)
        log = [canon({"checked": checked, "violations": sorted(v["signature"] for v in violations)})]
        return {"digest": digest(log), "n_ops": checked, "violations": violations,
                "counters": {"C19.shipped.checked": checked}, "probes": {}, "faults_fired": {}}
    if what == "c09":
        from sim import c09

        return c09.run(req, boot)
    raise ValueError(what)
