"""Clause sets of World A beyond C01 (C19 here; C02, C13, C15 below)."""
from sim import model as M
from sim import registry
from sim.world_a import ABSENT, Clauses

DECL_OPS = {
    "define_unit": "Unit.define", "dim_unit": "Dimension.unit", "derive": "Unit.derive",
    "alias": "Unit.alias", "prefix_new": "Prefix", "dim_derive": "Dimension.derive",
    "scale": "Dimension.scale", "dim_define": "Dimension.define",
}


class C19Clauses(Clauses):
    """(a) a successful declaration binds: lookups by the declared name/symbol return
    the object and the object reports them; (b) no name or symbol an object reports is
    bound to a different object; (c) a declaration call that raises leaves every
    registry exactly as it was (deep snapshot taken after argument evaluation)."""

    def __init__(self, interp):
        super().__init__(interp)
        self.snap = None
        self.reported_b = set()
        # clause (b) must hold from the first step on (shipped declarations)
        self.scan_b("boot")

    def is_decl(self, op):
        if op["op"] not in DECL_OPS:
            return False
        if op["op"] == "prefix_new" and not (op.get("name") or op.get("symbol")):
            return False
        return True

    def before_op(self, op, prepared):
        self.snap = None
        if self.is_decl(op):
            self.snap = registry.snapshot(self.I.L, self.I.conv)

    def scan_b(self, when):
        bad = registry.double_bindings(self.I.L)
        new = [b for b in bad if b not in self.reported_b]
        for kind, name in new:
            self.reported_b.add((kind, name))
            self.I.violation("C19.b", "C19/b/double-bound/" + kind, {"name": name, "when": when})
        self.I.count("C19.b.checked")
        return not new

    def after_op(self, op, prepared, kind, value, mval, exc, info, rec):
        if not self.is_decl(op) or self.snap is None:
            return None
        I = self.I
        L = I.L
        out = {}
        entry = DECL_OPS[op["op"]]
        if exc is not None:
            after = registry.snapshot(L, I.conv)
            changed = registry.diff(self.snap, after)
            I.count("C19.c.checked")
            if rec.get("injected"):
                I.count("C19.c.F2.checked")
            if changed:
                out["C19.c"] = "VIOLATED"
                if rec.get("injected"):
                    sig = "C19/c/F2/%s/%s" % (entry, "+".join(changed))
                else:
                    sig = "C19/c/F1/%s/%s/%s" % (entry, op.get("fault", "unplanned:" + type(exc).__name__),
                                                 "+".join(changed))
                I.violation("C19.c", sig, {"op": {k: v for k, v in op.items() if k != "inject"},
                                           "raised": type(exc).__name__, "changed": changed,
                                           "inject": op.get("inject")})
            else:
                out["C19.c"] = "ok"
        else:
            # (a) faithful binding of what was declared
            name, symbol = op.get("name"), op.get("symbol")
            problems = []
            I.count("C19.a.checked")
            try:
                if kind == "unit":
                    if name:
                        if L.Unit._by_name.get(name) is not value:
                            problems.append("name-lookup")
                        elif L.Unit.named(name) is not value:
                            problems.append("named()")
                        if name not in value.names:
                            problems.append("name-unreported")
                    if symbol:
                        if L.Unit._by_symbol.get(symbol) is not value:
                            problems.append("symbol-lookup")
                        elif L.Unit.resolve_symbol(symbol) is not value:
                            problems.append("resolve_symbol()")
                        if symbol not in value.symbols:
                            problems.append("symbol-unreported")
                elif kind == "prefix":
                    if name:
                        if L.Prefix._by_name.get(name) is not value:
                            problems.append("name-lookup")
                        if value.name != name:
                            problems.append("name-unreported")
                    if symbol:
                        if L.Prefix._by_symbol.get(symbol) is not value:
                            problems.append("symbol-lookup")
                        if value.symbol != symbol:
                            problems.append("symbol-unreported")
                elif kind == "dim":
                    if name:
                        if L.Dimension.named(name) is not value:
                            problems.append("name-lookup")
                        if value.name != name:
                            problems.append("name-unreported")
            except Exception as e:
                problems.append("lookup-raised:" + type(e).__name__)
            if problems:
                out["C19.a"] = "VIOLATED"
                I.violation("C19.a", "C19/a/unbound/%s/%s" % (entry, "+".join(problems)),
                            {"op": op, "problems": problems})
            else:
                out["C19.a"] = "ok"
        if exc is not None and rec.get("injected"):
            # partial state left by an injected asynchronous exception is reported once,
            # under its (c)/F2 signature; its consequences for clause (b) are excused
            for b in registry.double_bindings(L):
                if b not in self.reported_b:
                    self.reported_b.add(b)
                    I.count("C19.b.excused-by-F2")
            out["C19.b"] = "excused-F2"
        else:
            out["C19.b"] = "ok" if self.scan_b(op["op"]) else "VIOLATED"
        return out

    def at_end(self):
        self.scan_b("end")


TABLE = {"C19": [C19Clauses]}
