"""Clause sets of World A beyond C01 (C19 here; C02, C13, C15 below)."""
from fractions import Fraction

from sim import model as M
from sim import registry
from sim.world_a import ABSENT, Clauses

DECL_OPS = {
    "define_unit": "Unit.define", "dim_unit": "Dimension.unit", "derive": "Unit.derive",
    "alias": "Unit.alias", "prefix_new": "Prefix", "dim_derive": "Dimension.derive",
    "scale": "Dimension.scale", "dim_define": "Dimension.define",
}


class C19Clauses(Clauses):
    """(a) a successful declaration binds: lookups by the declared name/symbol return
    the object and the object reports them; (b) no name or symbol an object reports is
    bound to a different object; (c) a declaration call that raises leaves every
    registry exactly as it was (deep snapshot taken after argument evaluation)."""

    def __init__(self, interp):
        super().__init__(interp)
        self.snap = None
        self.reported_b = set()
        # clause (b) must hold from the first step on (shipped declarations)
        self.scan_b("boot")

    def is_decl(self, op):
        if op["op"] not in DECL_OPS:
            return False
        if op["op"] == "prefix_new" and not (op.get("name") or op.get("symbol")):
            return False
        return True

    def before_op(self, op, prepared):
        self.snap = None
        if self.is_decl(op):
            self.snap = registry.snapshot(self.I.L, self.I.conv)

    def scan_b(self, when, suffix=""):
        bad = registry.double_bindings(self.I.L)
        new = [b for b in bad if b not in self.reported_b]
        for kind, name in new:
            self.reported_b.add((kind, name))
            self.I.violation("C19.b", "C19/b/double-bound/" + kind + (suffix if kind == "dimension-name-unreported" else ""),
                             {"name": name, "when": when})
        self.I.count("C19.b.checked")
        return not new

    def after_op(self, op, prepared, kind, value, mval, exc, info, rec):
        if not self.is_decl(op) or self.snap is None:
            return None
        I = self.I
        L = I.L
        out = {}
        entry = DECL_OPS[op["op"]]
        if exc is not None:
            after = registry.snapshot(L, I.conv)
            changed = registry.diff(self.snap, after)
            I.count("C19.c.checked")
            if rec.get("injected"):
                I.count("C19.c.F2.checked")
            if changed:
                out["C19.c"] = "VIOLATED"
                if rec.get("injected"):
                    sig = "C19/c/F2/%s/%s" % (entry, "+".join(changed))
                else:
                    sig = "C19/c/F1/%s/%s/%s" % (entry, op.get("fault", "unplanned:" + type(exc).__name__),
                                                 "+".join(changed))
                I.violation("C19.c", sig, {"op": {k: v for k, v in op.items() if k != "inject"},
                                           "raised": type(exc).__name__, "changed": changed,
                                           "inject": op.get("inject")})
            else:
                out["C19.c"] = "ok"
        else:
            # (a) faithful binding of what was declared
            name, symbol = op.get("name"), op.get("symbol")
            problems = []
            I.count("C19.a.checked")
            try:
                if kind == "unit":
                    if name:
                        if L.Unit._by_name.get(name) is not value:
                            problems.append("name-lookup")
                        elif L.Unit.named(name) is not value:
                            problems.append("named()")
                        if name not in value.names:
                            problems.append("name-unreported")
                    if symbol:
                        if L.Unit._by_symbol.get(symbol) is not value:
                            problems.append("symbol-lookup")
                        elif L.Unit.resolve_symbol(symbol) is not value:
                            problems.append("resolve_symbol()")
                        if symbol not in value.symbols:
                            problems.append("symbol-unreported")
                elif kind == "prefix":
                    if name:
                        if L.Prefix._by_name.get(name) is not value:
                            problems.append("name-lookup")
                        if value.name != name:
                            problems.append("name-unreported")
                    if symbol:
                        if L.Prefix._by_symbol.get(symbol) is not value:
                            problems.append("symbol-lookup")
                        if value.symbol != symbol:
                            problems.append("symbol-unreported")
                elif kind == "dim":
                    if name:
                        if L.Dimension.named(name) is not value:
                            problems.append("name-lookup")
                        if value.name != name:
                            problems.append("name-unreported")
            except Exception as e:
                problems.append("lookup-raised:" + type(e).__name__)
            if problems:
                out["C19.a"] = "VIOLATED"
                I.violation("C19.a", "C19/a/unbound/%s/%s" % (entry, "+".join(problems)),
                            {"op": op, "problems": problems})
            else:
                out["C19.a"] = "ok"
        if exc is not None and rec.get("injected"):
            # partial state left by an injected asynchronous exception is reported once,
            # under its (c)/F2 signature; its consequences for clause (b) are excused
            for b in registry.double_bindings(L):
                if b not in self.reported_b:
                    self.reported_b.add(b)
                    I.count("C19.b.excused-by-F2")
            out["C19.b"] = "excused-F2"
        else:
            # a *successful* Dimension.derive of a dimension that already had a name is a case of its own
            renamed = exc is None and op["op"] == "dim_derive"
            out["C19.b"] = "ok" if self.scan_b(op["op"], "/renamed-by-successful-derive" if renamed else "") \
                else "VIOLATED"
        return out

    def at_end(self):
        self.scan_b("end")


TABLE = {"C19": [C19Clauses]}


# ======================================================================
# C02 — canonical objects / abelian-group laws up to identity
# ======================================================================
def single_base_int(mp):
    return len(mp) <= 1 and all(e.denominator == 1 for _, e in mp)


class IdentityTable(Clauses):
    """normal form -> first object seen in this world (strong refs keep ids unique).
    Every later value with that normal form must be the very same object."""

    PROP = "C02"

    def __init__(self, interp):
        super().__init__(interp)
        L = interp.L
        self.units = {M.ONE: L.One}
        self.dims = {(): L.Number}
        self.prefixes = {(): L.IdentityPrefix}
        self.tainted = set()     # op ids whose value went through mixed-base prefix arithmetic

    def refs(self, op):
        out = []
        for v in op.values():
            if isinstance(v, list) and len(v) >= 2 and v[0] == "r" and isinstance(v[1], int):
                out.append(v[1])
        return out

    def bases(self, mval, kind):
        if mval is None:
            return set()
        if kind == "prefix":
            return {b for b, _ in mval}
        if kind in ("unit", "qty"):
            return {b for b, _ in mval[0]}
        return set()

    def check_unit(self, op, u, m, tainted, label):
        I = self.I
        got = I.nf_of(u)
        if got is None:
            I.count(self.PROP + ".identity.undescribable")
            return None
        try:
            # a float exponent can only come from mixed-base prefix arithmetic, possibly in an
            # earlier world (a decoded blob) or before the bases cancelled again
            if isinstance(u.prefix.exponent, float):
                tainted = True
        except AttributeError:
            pass
        if tainted or not single_base_int(m[0]):
            # mixed bases: only the numeric scale is constrained (1e-9)
            I.count(self.PROP + ".scale.checked")
            if got[1] != m[1]:
                I.violation(self.PROP + ".nf", "%s/denotes-different-product/%s" % (self.PROP, label),
                            {"expected": M.nf_str(m), "got": M.nf_str(got)})
                return "VIOLATED"
            if not M.p_close(got[0], m[0]):
                I.violation(self.PROP + ".scale", "%s/mixed-base-scale/%s" % (self.PROP, label),
                            {"expected": M.nf_str(m), "got": M.nf_str(got)})
                return "VIOLATED"
            return "ok"
        I.count(self.PROP + ".identity.checked")
        if got != m:
            I.violation(self.PROP + ".nf", "%s/denotes-different-product/%s" % (self.PROP, label),
                        {"expected": M.nf_str(m), "got": M.nf_str(got)})
            return "VIOLATED"
        first = self.units.get(m)
        if first is None:
            self.units[m] = u
            return "ok"
        if first is not u:
            I.violation(self.PROP + ".identity", "%s/split-identity/Unit/%s" % (self.PROP, label),
                        {"nf": M.nf_str(m)})
            return "VIOLATED"
        I.probe("same-normal-form-seen-again")
        return "ok"

    def check_value(self, op, kind, value, mval, rec, label):
        I = self.I
        ids = self.refs(op)
        tainted = any(i in self.tainted for i in ids)
        bases = set()
        for key, v in op.items():
            if isinstance(v, list) and len(v) >= 2 and v[0] in ("r", "u", "p"):
                pass
        if kind in ("unit", "qty", "prefix", "pair") and mval is not None:
            ms = [mval] if kind != "pair" else [m for m in mval if m is not None]
            for m in ms:
                bases |= self.bases(m, "prefix" if kind == "prefix" else "unit")
            # operands' bases
            for i in ids:
                bases |= self.bases(I.mvals.get(i), (I.vals.get(i) or (None,))[0])
        if len(bases - {0}) > 1:
            tainted = True
        try:
            vs = value if kind == "pair" else [value.unit if kind == "qty" else value]
            if kind in ("unit", "qty", "pair") and any(isinstance(v.prefix.exponent, float) for v in vs):
                tainted = True
        except AttributeError:
            pass
        if tainted and "id" in op:
            self.tainted.add(op["id"])
        out = {}
        if kind == "unit":
            out[self.PROP + ".identity"] = self.check_unit(op, value, mval, tainted, label)
        elif kind == "qty":
            out[self.PROP + ".identity"] = self.check_unit(op, value.unit, mval, tainted, label)
        elif kind == "pair":
            vs = [self.check_unit(op, v, m, tainted, label) for v, m in zip(value, mval) if m is not None]
            out[self.PROP + ".identity"] = "VIOLATED" if "VIOLATED" in vs else "ok"
        elif kind == "dim":
            I.count(self.PROP + ".identity.checked")
            got = M.d_norm(value.exponents)
            if got != mval:
                I.violation(self.PROP + ".nf", "%s/denotes-different-product/%s" % (self.PROP, label),
                            {"expected": list(mval), "got": list(got)})
                out[self.PROP + ".identity"] = "VIOLATED"
            else:
                first = self.dims.setdefault(mval, value)
                if first is not value:
                    I.violation(self.PROP + ".identity", "%s/split-identity/Dimension/%s" % (self.PROP, label),
                                {"dim": list(mval)})
                    out[self.PROP + ".identity"] = "VIOLATED"
        elif kind == "prefix":
            if isinstance(getattr(value, "exponent", 0), float):
                tainted = True
                if "id" in op:
                    self.tainted.add(op["id"])
            if tainted or not single_base_int(mval):
                I.count(self.PROP + ".scale.checked")
                got_p = M.p_norm([(value.base, Fraction(value.exponent))])
                if not M.p_close(got_p, mval):
                    I.violation(self.PROP + ".scale", "%s/mixed-base-scale/%s" % (self.PROP, label),
                                {"expected": str(mval), "got": str(got_p)})
                    out[self.PROP + ".scale"] = "VIOLATED"
            else:
                I.count(self.PROP + ".identity.checked")
                got = M.p_norm([(value.base, Fraction(value.exponent))])
                if got != mval:
                    I.violation(self.PROP + ".nf", "%s/denotes-different-product/%s" % (self.PROP, label),
                                {"expected": str(mval), "got": str(got)})
                    out[self.PROP + ".identity"] = "VIOLATED"
                else:
                    first = self.prefixes.setdefault(mval, value)
                    if first is not value:
                        I.violation(self.PROP + ".identity", "%s/split-identity/Prefix/%s" % (self.PROP, label),
                                    {"prefix": str(mval)})
                        out[self.PROP + ".identity"] = "VIOLATED"
        return {k: v for k, v in out.items() if v}


ALGEBRA = {"u_mul", "u_div", "u_pow", "u_root", "p_mul_u", "as_ratio", "pick", "quantify", "q_bin", "q_unit",
           "q_pow", "q_root", "unprefixed", "q_unit_of", "q_new", "d_bin", "d_pow", "d_root", "p_bin", "p_pow",
           "p_root", "prefix_new", "derive", "define_unit", "dim_unit", "alias", "dim_derive"}


class C02Clauses(IdentityTable):
    PROP = "C02"

    def after_op(self, op, prepared, kind, value, mval, exc, info, rec):
        name = op["op"]
        I = self.I
        if rec.get("injected"):
            return None
        if name not in ALGEBRA and name not in ("roundtrip", "load", "convert", "parse"):
            return None
        if name in ("u_root", "q_root", "p_root", "d_root") and op.get("n") == 0:
            return None      # the property speaks of roots of degree n != 0 only
        if exc is not None:
            # the model says this expression denotes a value: the library must not refuse it
            if name in ("u_root", "q_root", "p_root", "d_root", "u_pow", "u_mul", "u_div", "p_mul_u",
                        "d_bin", "d_pow", "p_bin", "p_pow") and prepared:
                want = self.predict(op, prepared)
                if want is not None and type(exc).__name__ in ("FractionalDimensionError", "TypeError",
                                                               "KeyError", "AttributeError", "ValueError",
                                                               "ZeroDivisionError"):
                    # roots through mixed-base prefix arithmetic (float exponents) are outside the
                    # same-base clause of the property: only their numeric scale is constrained
                    m0 = prepared[0][1]
                    pm = m0 if name == "p_root" else (m0[0] if isinstance(m0, tuple) and len(m0) == 2 else ())
                    if not single_base_int(pm or ()) or any(i in self.tainted for i in self.refs(op)):
                        return None
                    I.count("C02.law.checked")
                    I.violation("C02.law", "C02/law/refused/%s:%s" % (name, type(exc).__name__),
                                {"op": op, "expected": str(want)})
                    return {"C02.law": "VIOLATED"}
            return None
        if mval is None or name in ("convert", "parse"):
            return None
        if kind == "qty" and (
                (name == "load" and not str((info.get("_blob") or {}).get("codec", "")).startswith("pickle")) or
                (name == "roundtrip" and str(op.get("codec", "")).startswith("json"))):
            # a quantity's JSON / SQL form carries str(unit): text, where the library deliberately
            # maps e.g. "kg" to the named kilogram - that round trip is C13/C15's subject, not an
            # expression over units
            if "id" in op:
                I.mvals[op["id"]] = I.nf_of(value.unit)
            return None
        return self.check_value(op, kind, value, mval, rec, name)

    def predict(self, op, prepared):
        ms = [m for _, m in prepared]
        if any(m is None for m in ms):
            return None
        n = op.get("n")
        name = op["op"]
        try:
            if name == "u_root":
                return M.u_root(ms[0], n)
            if name == "q_root":
                return M.u_root(ms[0], n)
            if name == "p_root":
                return M.p_root(ms[0], n)
            if name == "d_root":
                return M.d_root(ms[0], n)
            if name == "u_pow":
                return M.u_pow(ms[0], n)
            if name == "u_mul":
                return M.u_mul(ms[0], ms[1])
            if name == "u_div":
                return M.u_div(ms[0], ms[1])
        except Exception:
            return None
        return "a value"


TABLE["C02"] = [C02Clauses]


# ======================================================================
# C15 — pickle / copy / JSON round trips preserve identity, names, magnitude type
# ======================================================================
def canon_named(nf):
    """The one deliberate text mapping of the library: a prefixed gram written "kg" reads back as
    the named kilogram (1 kilogram == 1000 gram, declared in si.py).  Both spellings get one
    canonical form: kilogram^e -> 10^(3e) * gram^e."""
    if nf is None:
        return None
    p, f = nf
    extra = []
    out = []
    for t, e in f:
        if t == "kilogram":
            extra.append((10, 3 * e))
            out.append(("gram", e))
        else:
            out.append((t, e))
    return (M.p_norm(list(p) + extra), M.f_norm(out))


def same_quantity(xm, xnf, ym, ynf, tol=0.0):
    """Exact comparison of magnitude x prefix scale over identical canonical factors."""
    a, b = canon_named(xnf), canon_named(ynf)
    if a is None or b is None or a[1] != b[1]:
        return False
    try:
        va = Fraction(xm) * Fraction(M.p_value(a[0]))
        vb = Fraction(ym) * Fraction(M.p_value(b[0]))
    except (TypeError, ValueError, OverflowError):
        return True          # nan / inf magnitudes: out of scope
    if va == vb:
        return True
    if not (single_base_int(a[0]) and single_base_int(b[0])):
        tol = max(tol, 1e-9)
    return tol > 0 and abs(float(va - vb)) <= tol * abs(float(va))


class C15Clauses(IdentityTable):
    PROP = "C15"

    def __init__(self, interp):
        super().__init__(interp)
        self.before = None
        self.json_state = None

    def _json_state(self):
        import json

        return (id(json._default_encoder), id(json._default_decoder),
                id(json.loads.__kwdefaults__.get("object_hook")) if json.loads.__kwdefaults__ else None)

    def before_op(self, op, prepared):
        self.before = None
        if op["op"] in ("roundtrip", "json_nested") and prepared:
            x = prepared[0][0]
            self.before = (getattr(x, "names", None), getattr(x, "symbols", None),
                           getattr(x, "name", None), getattr(x, "symbol", None))
            self.json_state = self._json_state()

    def after_op(self, op, prepared, kind, value, mval, exc, info, rec):
        name = op["op"]
        I = self.I
        L = I.L
        if rec.get("injected"):
            return None
        out = {}
        if name in ("roundtrip", "json_nested"):
            codec = op.get("codec", "json_nested")
            I.count("C15.roundtrip.checked")
            if self.json_state is not None and self._json_state() != self.json_state:
                I.violation("C15.codec-state", "C15/%s/codec-state-leaked" % codec, {"op": op})
                out["C15.codec-state"] = "VIOLATED"
            if exc is not None:
                cls = self.text_class(prepared[0][0]) if op.get("kind") == "qty" and codec.startswith("json") else None
                I.violation("C15.roundtrip", "C15/%s/%s/raised:%s/%s" % (
                    codec, op.get("kind"), type(exc).__name__, cls or "plain"),
                    {"op": op, "message": str(exc)[:200]})
                out["C15.roundtrip"] = "VIOLATED"
                return out
            x = info["_orig"]
            k = op["kind"]
            want_cls = {"unit": L.Unit, "prefix": L.Prefix, "dim": L.Dimension, "qty": L.Quantity}[k]
            if not isinstance(value, want_cls):
                I.violation("C15.roundtrip", "C15/%s/%s/wrong-type:%s" % (codec, k, type(value).__name__),
                            {"op": op})
                if "id" in op:
                    I.vals[op["id"]] = (None, ABSENT)
                return {"C15.roundtrip": "VIOLATED"}
            if k in ("unit", "prefix", "dim"):
                if value is not x:
                    I.violation("C15.identity", "C15/%s/%s/identity" % (codec, k),
                                {"op": op, "nf": M.nf_str(mval) if k == "unit" and mval else None})
                    out["C15.identity"] = "VIOLATED"
                after = (getattr(x, "names", None), getattr(x, "symbols", None),
                         getattr(x, "name", None), getattr(x, "symbol", None))
                if after != self.before:
                    I.violation("C15.names", "C15/%s/%s/names-changed" % (codec, k),
                                {"before": self.before, "after": after})
                    out["C15.names"] = "VIOLATED"
            elif k == "qty":
                self.check_qty(op, codec, x.magnitude, x.unit, value, out, mval)
            if not out:
                out["C15.roundtrip"] = "ok"
            return out
        if name == "load":
            if exc is not None:
                blob = prepared[0][0]
                cls = None
                I.count("C15.load.checked")
                I.violation("C15.load", "C15/%s/%s/load-raised:%s/%s%s" % (
                    blob["codec"], blob["kind"], type(exc).__name__, blob.get("text_class") or "plain",
                    "/restarted" if I.restarted else ""), {"op": op, "message": str(exc)[:200]})
                return {"C15.load": "VIOLATED"}
            blob = info["_blob"]
            I.count("C15.load.checked")
            want_cls = {"unit": L.Unit, "prefix": L.Prefix, "dim": L.Dimension, "qty": L.Quantity}.get(blob["kind"])
            if want_cls is not None and not isinstance(value, want_cls):
                I.violation("C15.load", "C15/%s/%s/load-wrong-type:%s" % (blob["codec"], blob["kind"],
                                                                         type(value).__name__), {"op": op})
                if "id" in op:
                    I.vals[op["id"]] = (None, ABSENT)
                return {"C15.load": "VIOLATED"}
            if I.restarted:
                I.count("C15.load.after-restart.checked")
                I.probe("blob-decoded-in-restarted-world")
            if kind == "unit" and mval is not None:
                r = self.check_value(op, "unit", value, mval, rec, "load:" + blob["codec"] + ("/restarted" if I.restarted else ""))
                # the decoded unit carries the dimension the serialized one had
                try:
                    want = I.model.dim_of(mval)
                    got = M.d_norm(value.dimension.exponents)
                    if got != want:
                        epoch = ""
                        if I.stale_epoch:
                            # the listed dimension-epoch finding: this world decoded something across a
                            # Dimension.define and the unit (or a factor) carries an older, narrower tuple
                            width = len(L.Dimension._fundamental) + 1
                            dims = [value.dimension] + [f.dimension for f in value.factors]
                            if any(len(d.exponents) != width for d in dims):
                                epoch = "/after-dimension-define"
                        I.violation("C15.load", "C15/%s/unit/wrong-dimension-after-load%s%s" % (
                            blob["codec"], epoch, "/restarted" if I.restarted else ""),
                            {"nf": M.nf_str(mval), "got": list(got), "want": list(want)})
                        return {"C15.load": "VIOLATED"}
                except (KeyError, AttributeError):
                    pass
                # usable?
                try:
                    value.dimension, value.prefix, value.factors, value.names
                except AttributeError as e:
                    I.violation("C15.load", "C15/%s/unit/unusable-object%s" % (
                        blob["codec"], "/restarted" if I.restarted else ""), {"missing": str(e)})
                    return {"C15.load": "VIOLATED"}
                return r
            if kind == "dim" and mval is not None:
                epoch = "/after-dimension-define" if len(I.model.fundamental) > blob.get("n_fundamental", 10 ** 6) else ""
                got = M.d_norm(value.exponents)
                canonical = L.Dimension._known.get(tuple(mval) + (0,) * (len(I.model.fundamental) + 1 - len(mval)))
                if got != tuple(mval) or (canonical is not None and value is not canonical):
                    I.violation("C15.load", "C15/%s/dim/load-identity%s%s" % (
                        blob["codec"], epoch, "/restarted" if I.restarted else ""),
                        {"want": list(mval), "got": list(got), "canonical_exists": canonical is not None})
                    if "id" in op:
                        I.vals[op["id"]] = (None, ABSENT)   # a duplicate must not seed further checks
                    return {"C15.load": "VIOLATED"}
                return {"C15.load": "ok"}
            if kind == "qty":
                want_t, want_r = blob["m"]
                got_t, got_r = type(value.magnitude).__name__, repr(value.magnitude)
                if got_t != want_t:
                    I.violation("C15.magnitude", "C15/%s/qty/magnitude-type" % blob["codec"],
                                {"want": blob["m"], "got": [got_t, got_r]})
                    out["C15.magnitude"] = "VIOLATED"
                elif got_r != want_r:
                    I.violation("C15.magnitude", "C15/%s/qty/magnitude-value" % blob["codec"],
                                {"want": blob["m"], "got": [got_t, got_r]})
                    out["C15.magnitude"] = "VIOLATED"
                if mval is not None and blob["codec"].startswith("pickle"):
                    r = self.check_value(op, "unit", value.unit, mval, rec, "load:" + blob["codec"] + ("/restarted" if I.restarted else ""))
                    out.update(r or {})
                elif mval is not None:
                    # JSON / composite carry str(unit): the decoded unit must denote the same product
                    got = I.nf_of(value.unit)
                    same = got is not None and got[1] == mval[1] and M.p_close(got[0], mval[0])
                    if not same and got is not None:
                        # the deliberate kg case: an equal named unit is acceptable
                        a, b = canon_named(got), canon_named(mval)
                        same = a[1] == b[1] and M.p_close(a[0], b[0])
                        if same and "id" in op:
                            I.mvals[op["id"]] = got   # from here on the value *is* that named unit
                    if not same:
                        I.violation("C15.value", "C15/%s/qty/load-not-equal/%s%s" % (
                            blob["codec"], blob.get("text_class") or "plain", "/restarted" if I.restarted else ""),
                            {"want": M.nf_str(mval), "got": M.nf_str(got)})
                        out["C15.value"] = "VIOLATED"
                        if "id" in op:
                            I.mvals[op["id"]] = None
                return out or {"C15.load": "ok"}
            return None
        # everything else that yields units feeds the identity table (so that a later
        # load / rebuild of the same normal form is compared with it)
        if exc is None and mval is not None and kind in ("unit", "qty", "pair") and name in ALGEBRA:
            return self.check_value(op, kind, value, mval, rec, name)
        return None

    def equal_size(self, a, b):
        """kilo*gram vs kilogram: equal by the library's own equality of 1*unit."""
        try:
            ua, ub = self.unit_from_nf(a), self.unit_from_nf(b)
            return ua is not None and ub is not None and ((1 * ua) == (1 * ub)) is True
        except Exception:
            return False

    def unit_from_nf(self, nf):
        L = self.I.L
        u = L.One
        for t, e in nf[1]:
            u = u * L.Unit._by_name[t] ** e
        for b, e in nf[0]:
            u = L.Prefix(b, int(e) if e.denominator == 1 else float(e)) * u
        return u

    def text_class(self, q):
        try:
            from sim.clauses_c13 import render_class

            return render_class(self.I, q.unit)
        except Exception:
            return None

    def check_qty(self, op, codec, xm, xu, y, out, mval):
        I = self.I
        if type(y.magnitude) is not type(xm):
            I.violation("C15.magnitude", "C15/%s/qty/magnitude-type" % codec,
                        {"want": mag_desc(xm), "got": mag_desc(y.magnitude)})
            out["C15.magnitude"] = "VIOLATED"
            return
        exact_unit = not codec.startswith("json")
        if exact_unit:
            if y.unit is not xu:
                I.violation("C15.identity", "C15/%s/qty/unit-identity" % codec, {"nf": M.nf_str(mval) if mval else None})
                out["C15.identity"] = "VIOLATED"
            if repr(y.magnitude) != repr(xm):
                I.violation("C15.magnitude", "C15/%s/qty/magnitude-value" % codec,
                            {"want": mag_desc(xm), "got": mag_desc(y.magnitude)})
                out["C15.magnitude"] = "VIOLATED"
        else:
            # JSON carries str(unit): an equal quantity of the same magnitude type.  Judged in exact
            # arithmetic on the model's normal forms (the library's own == would go through a float
            # conversion for the deliberate kg spelling and fail for large or inexact magnitudes)
            same = same_quantity(xm, I.nf_of(xu), y.magnitude, I.nf_of(y.unit))
            if same and "id" in op:
                got = I.nf_of(y.unit)
                if got is not None and mval is not None and got != mval:
                    I.mvals[op["id"]] = got      # e.g. kilo*gram came back as the named kilogram
            if not same:
                from sim.clauses_c13 import render_class

                cls = render_class(I, xu) or "plain"
                I.violation("C15.value", "C15/%s/qty/not-equal/%s" % (codec, cls),
                            {"x": [mag_desc(xm), M.nf_str(I.nf_of(xu))],
                             "y": [mag_desc(y.magnitude), M.nf_str(I.nf_of(y.unit))]})
                out["C15.value"] = "VIOLATED"
                if "id" in op:
                    I.mvals[op["id"]] = None   # do not let a wrong decode cascade into later checks


from sim.world_a import mag_desc  # noqa: E402

TABLE["C15"] = [C15Clauses]

from sim.clauses_c13 import C13Clauses  # noqa: E402

TABLE["C13"] = [C13Clauses]
