"""Reference model: textbook quantity calculus, exact arithmetic.

Does not import `measured`.  Values:

  dimension  = tuple of ints over the world's fundamental dimensions, trailing
               zeros stripped (Number = ())
  prefix     = sorted tuple of (base, Fraction exponent), zero exponents dropped
               (identity = ())
  unit nf    = (prefix, factors) with factors a sorted tuple of
               (base-unit token, non-zero int exponent)   (One = ((), ()))

Functions return None where the operation is undefined in the model (for
instance a root that does not divide), which the interpreters read as "the
library is expected to refuse".
"""
from fractions import Fraction


# ---------------------------------------------------------------- dimensions
def d_norm(t):
    t = tuple(int(x) for x in t)
    n = len(t)
    while n and t[n - 1] == 0:
        n -= 1
    return t[:n]


def _pad(a, b):
    n = max(len(a), len(b))
    return a + (0,) * (n - len(a)), b + (0,) * (n - len(b))


def d_mul(a, b):
    a, b = _pad(a, b)
    return d_norm(x + y for x, y in zip(a, b))


def d_div(a, b):
    a, b = _pad(a, b)
    return d_norm(x - y for x, y in zip(a, b))


def d_pow(a, n):
    return d_norm(x * n for x in a)


def d_root(a, n):
    if n == 0:
        return ()
    if any(x % n for x in a):
        return None
    return d_norm(x // n for x in a)


def d_degree(a):
    return sum(abs(x) for x in a)


# ------------------------------------------------------------------ prefixes
def p_norm(items):
    acc = {}
    for b, e in items:
        e = Fraction(e)
        if b == 0 or e == 0:
            continue
        acc[b] = acc.get(b, 0) + e
    return tuple(sorted((b, e) for b, e in acc.items() if e != 0))


def p_mul(a, b):
    return p_norm(list(a) + list(b))


def p_div(a, b):
    return p_norm(list(a) + [(bb, -e) for bb, e in b])


def p_pow(a, n):
    return p_norm((b, e * n) for b, e in a)


def p_root(a, n):
    if n == 0:
        return ()
    out = []
    for b, e in a:
        q = e / n
        if q.denominator != 1:
            return None
        out.append((b, q))
    return p_norm(out)


def p_single_base(a):
    return len(a) <= 1 and all(e.denominator == 1 for _, e in a)


def p_value(a):
    """Exact value when all exponents are integers, else a float."""
    if all(e.denominator == 1 for _, e in a):
        v = Fraction(1)
        for b, e in a:
            v *= Fraction(b) ** int(e)
        return v
    v = 1.0
    for b, e in a:
        v *= float(b) ** float(e)
    return v


def p_log10(a):
    import math

    return sum(float(e) * math.log10(b) for b, e in a)


def p_close(a, b, tol=1e-9):
    """Numeric scales of two prefixes agree within `tol` relative (compared through
    logarithms so that astronomically large exponents cannot overflow a float)."""
    return abs(p_log10(a) - p_log10(b)) <= tol / 2.302585092994046 * 1.0000001 + 1e-15


# --------------------------------------------------------------------- units
ONE = ((), ())


def f_norm(items):
    acc = {}
    for t, e in items:
        acc[t] = acc.get(t, 0) + int(e)
    return tuple(sorted((t, e) for t, e in acc.items() if e != 0))


def u_mul(a, b):
    return (p_mul(a[0], b[0]), f_norm(list(a[1]) + list(b[1])))


def u_div(a, b):
    return (p_div(a[0], b[0]), f_norm(list(a[1]) + [(t, -e) for t, e in b[1]]))


def u_pow(a, n):
    return (p_pow(a[0], n), f_norm((t, e * n) for t, e in a[1]))


def u_root(a, n):
    if n == 0:
        return ONE
    p = p_root(a[0], n)
    if p is None:
        return None
    out = []
    for t, e in a[1]:
        if e % n:
            return None
        out.append((t, e // n))
    return (p, f_norm(out))


def u_as_ratio(a):
    num = (a[0], tuple((t, e) for t, e in a[1] if e > 0))
    den = ((), tuple((t, -e) for t, e in a[1] if e < 0))
    return num, den


def u_with_prefix(p, a):
    return (p_mul(p, a[0]), a[1])


def u_unprefixed(a):
    return ((), a[1])


def nf_str(nf):
    if nf is None:
        return None
    p, f = nf
    ps = ",".join("%d^%s" % (b, e) for b, e in p)
    fs = ",".join("%s:%d" % (t, e) for t, e in f)
    return ps + "|" + fs


def nf_json(nf):
    p, f = nf
    return [[[b, str(e)] for b, e in p], [[t, e] for t, e in f]]


def nf_from_json(j):
    return (p_norm((b, Fraction(e)) for b, e in j[0]), f_norm((t, e) for t, e in j[1]))


class ModelWorld:
    """Declared registries + dimensions of base units.  Initialised from the boot
    snapshot (the shipped declarations) and updated only by the operations the
    generator/interpreter apply, never by library results."""

    def __init__(self, snapshot):
        self.fundamental = list(snapshot["fundamental"])
        self.dims = {n: d_norm(e) for n, e in snapshot["dims"].items()}
        self.base_dim = {}      # base unit token -> dimension
        self.unit_names = {}    # every registered unit name -> nf
        self.unit_symbols = {}  # every registered unit symbol -> nf
        self.prefix_names = {}
        self.prefix_symbols = {}
        for name, d in snapshot["units"].items():
            if d.get("half_built"):
                continue
            if d["base"]:
                self.base_dim[d["names"][0]] = d_norm(d["dim"])
        for name, d in snapshot["units"].items():
            if d.get("half_built"):
                continue
            self.unit_names[name] = self.nf_of_desc(d)
        for sym, name in snapshot["unit_symbols"].items():
            if name is not None and name in self.unit_names:
                self.unit_symbols[sym] = self.unit_names[name]
        for name, (b, e, sym, _n) in snapshot["prefixes"].items():
            self.prefix_names[name] = p_norm([(b, Fraction(e))])
        for sym, (b, e) in snapshot["prefix_symbols"].items():
            self.prefix_symbols[sym] = p_norm([(b, Fraction(e))])

    @staticmethod
    def nf_of_desc(d):
        b, e = d["prefix"]
        return (p_norm([(b, Fraction(e))]), f_norm((t, x) for t, x in d["factors"] if t != "one"))

    def dim_of(self, nf):
        d = ()
        for t, e in nf[1]:
            d = d_mul(d, d_pow(self.base_dim[t], e))
        return d

    # declarations -------------------------------------------------------
    def define_unit(self, name, symbol, dim):
        self.base_dim[name] = dim
        nf = ((), ((name, 1),))
        self.unit_names[name] = nf
        if symbol:
            self.unit_symbols[symbol] = nf
        return nf

    def name_unit(self, nf, name, symbol):
        if name:
            self.unit_names[name] = nf
        if symbol:
            self.unit_symbols[symbol] = nf
