"""Seeded generator of World B histories: a unit system under construction
(definitions, equivalence declarations consistent with hidden exact sizes) with
conversion / comparison queries interleaved at any point, including before the
declarations that enable them.

Shapes of queried units are restricted to the *calibrated region* (DESIGN 3.8 /
World B): the complement of the structural classes X1-X4 in which the planner is
known to fail; the predicates are evaluated on model normal forms only.
"""
import random
from fractions import Fraction

from sim import model as M

FUND = ["length", "time", "mass", "charge"]
FUND_VEC = {"length": (0, 1), "time": (0, 0, 1), "mass": (0, 0, 0, 1), "charge": (0, 0, 0, 0, 0, 1)}
# derived dimensions used for named synthetic units: name -> exponents over FUND order
DERIVED = {
    "area": {"length": 2},
    "volume": {"length": 3},
    "speed": {"length": 1, "time": -1},
    "acceleration": {"length": 1, "time": -2},
    "force": {"mass": 1, "length": 1, "time": -2},
    "energy": {"mass": 1, "length": 2, "time": -2},
    "flow": {"length": 3, "time": -1},
    "current": {"charge": 1, "time": -1},
}
NICE = [Fraction(1), Fraction(2), Fraction(3), Fraction(5), Fraction(12), Fraction(1000), Fraction(60),
        Fraction(1, 2), Fraction(1, 4), Fraction(3, 8), Fraction(381, 1250), Fraction(1609344, 1000),
        Fraction(45359237, 100000000), Fraction(7, 3), Fraction(1, 1000), Fraction(36), Fraction(9, 5)]
LETTERS = "abcdefghijklmnopqrstuvwxyz"


def vec(dims):
    v = ()
    for d, e in dims.items():
        v = M.d_mul(v, M.d_pow(FUND_VEC[d], e))
    return v


# --------------------------------------------------------------- region
def region_class(model, nf):
    """Most specific exclusion class of one side of a conversion, or None."""
    per_fund_pos = {}
    per_fund_neg = {}
    for t, e in nf[1]:
        d = model.base_dim[t]
        if d == ():
            if e < 0:
                return "X1-neg-dimensionless"
            continue
        if not any(x > 0 for x in d):
            return "X2-inverse-only-dimension"
        if M.d_degree(d) > 1 and e < 0:
            return "X4-neg-derived"
        for i, x in enumerate(d):
            if x * e > 0:
                per_fund_pos[i] = True
            elif x * e < 0:
                per_fund_neg[i] = True
    if set(per_fund_pos) & set(per_fund_neg):
        return "X3-internal-cancellation"
    return None


def mixed_sign(d):
    return any(x > 0 for x in d) and any(x < 0 for x in d)


def x6_class(model, nf):
    """X6: a base unit of mixed-sign derived dimension that has (so far) no declared
    equivalence to a compound expression; the planner then trips an assertion
    instead of reporting ConversionNotFound.  `model.compound_declared` is the
    set of unit tokens that do have one (history-dependent)."""
    declared = getattr(model, "compound_declared", None)
    if declared is None:
        return None
    for t, e in nf[1]:
        if mixed_sign(model.base_dim[t]) and t not in declared:
            return "X6-unexpanded-mixed-sign-derived"
    return None


def x7_class(model, a, b):
    """X7: dimensionless (Number-dimension) units whose total exponent differs between
    the two sides (e.g. degree*m -> m): the planner drops the unmatched factor
    instead of converting it to One."""
    def total(nf):
        return sum(e for t, e in nf[1] if model.base_dim[t] == ())
    if total(a) != total(b):
        return "X7-unbalanced-dimensionless"
    return None


def x8_class(model, a, b):
    """X8: both sides contain derived-dimension factors, grouped differently, and at
    least one of them has no declared expansion into a compound: the greedy
    matcher of the planner may strand (AssertionError instead of
    ConversionNotFound), depending on the order it tries dimensions in."""
    declared = getattr(model, "compound_declared", None)
    if declared is None:
        return None

    def derived(nf):
        return sorted((model.base_dim[t], e) for t, e in nf[1] if M.d_degree(model.base_dim[t]) > 1)
    da, db = derived(a), derived(b)
    if not da or not db or da == db:
        return None
    if any(M.d_degree(model.base_dim[t]) > 1 and t not in declared for t, _ in list(a[1]) + list(b[1])):
        return "X8-regrouped-unexpanded-derived"
    return None


def pair_class(model, a, b):
    if a == b:
        return None
    return (region_class(model, a) or region_class(model, b)
            or x6_class(model, a) or x6_class(model, b)
            or x7_class(model, a, b) or x8_class(model, a, b))


class GenB:
    def __init__(self, seed, prop, snapshot, params):
        self.rng = random.Random(seed)
        self.prop = prop
        self.params = params
        self.snap = snapshot
        self.model = M.ModelWorld(snapshot)
        self.model.compound_declared = set(snapshot.get("compound_declared") or [])
        self.sizes = {}          # token -> Fraction (hidden truth)
        self.ops = []
        self.next_id = 0
        self.unit_ref = {}       # token -> ref
        self.by_dim = {}         # model dim -> [tokens]
        self.taken = set(self.model.unit_names) | set(self.model.unit_symbols) | set(self.model.prefix_names)
        self.prefixes = []       # (ref, mprefix)
        self.declared = set()    # frozenset pairs of nfs already declared
        self.qtys = []           # (ref, nf, Fraction magnitude or None, kind)
        self.queries = []        # (op id, kind) for repeats
        self.have_si = "kilo" in self.model.prefix_names
        self.pairs = []
        self.shipped_tokens = set()
        self.extreme = set()
        self.unsized = set()
        self.decl_count = {}
        self.first_decl = {}
        self.decl_list = []
        self.used_as_expr = set()

    def emit(self, op):
        op["id"] = self.next_id
        self.next_id += 1
        self.ops.append(op)
        return ["r", op["id"]]

    def fresh(self):
        while True:
            n = "zy" + "".join(self.rng.choice(LETTERS) for _ in range(4))
            if n not in self.taken:
                self.taken.add(n)
                return n

    # ----------------------------------------------------------- system
    # shipped units whose declared sizes are inconsistent or unreachable on the pinned tree
    # (C09 known findings): conversions through them are not judged against a single size
    SHIPPED_EXCLUDED = {"ton of refrigeration", "boiler horsepower", "donkeypower", "one"}

    def plan_shipped(self):
        """Shipped mode: the system is the boot's shipped units (sizes solved from the
        traced declarations), plus a few synthetic units declared against them."""
        rng = self.rng
        sized = set(self.snap.get("shipped_sized") or [])
        scales = set(self.snap.get("scale_units") or [])
        for t, d in sorted(self.model.base_dim.items()):
            if self.prop == "C07" and t not in self.SHIPPED_EXCLUDED and (t in scales or t not in sized):
                # C07 judges only HOW a conversion fails, not its value: scale (offset) units and
                # units without a solved size take part too
                if not (d and d[0] != 0):
                    self.unit_ref[t] = ["u", t]
                    self.by_dim.setdefault(d, []).append(t)
                    self.shipped_tokens.add(t)
                    self.extreme.add(t)      # never a partner of a synthetic declaration (no size)
                    self.unsized.add(t)
                continue
            if t not in sized or t in scales or t in self.SHIPPED_EXCLUDED:
                continue
            if d and d[0] != 0:
                continue
            size = float(Fraction(self.snap["shipped_sizes"][t]))
            moderate = 1e-25 <= abs(size) <= 1e25
            if self.prop == "C05" and not moderate:
                # composite round-trip/route checks multiply several extreme sizes (planck,
                # stoney, hubble units): float under/overflow would decide, not the planner
                continue
            self.unit_ref[t] = ["u", t]
            self.by_dim.setdefault(d, []).append(t)
            self.shipped_tokens.add(t)
            if not moderate:
                self.extreme.add(t)
        dims = [d for d, ts in self.by_dim.items() if d and len(ts) >= 1]
        units = []
        for _ in range(rng.choice([0, 1, 2, 3])):
            d = rng.choice(sorted(dims))
            units.append((self.fresh(), d, rng.choice(NICE) * rng.choice([1, 1, 10, Fraction(1, 100)])))
        self.unit_plan = units
        for t, d, s in units:
            self.sizes[t] = s
        self.funds = []

    def plan_system(self):
        rng = self.rng
        nf_ = rng.choice([2, 2, 3, 3, 4])
        self.funds = rng.sample(FUND, nf_)
        units = []   # (token, dimname or vec, size)
        for d in self.funds:
            for _ in range(rng.choice([2, 3, 3, 4, 5])):
                units.append((self.fresh(), FUND_VEC[d], rng.choice(NICE) * rng.choice([1, 1, 1, 10, Fraction(1, 10)])))
        derived = [n for n, comp in DERIVED.items() if all(k in self.funds for k in comp)]
        rng.shuffle(derived)
        for n in derived[: rng.choice([0, 1, 2, 3, 4])]:
            for _ in range(rng.choice([1, 2, 2, 3])):
                units.append((self.fresh(), vec(DERIVED[n]), rng.choice(NICE)))
        if rng.random() < 0.4:
            for _ in range(rng.choice([2, 3])):
                units.append((self.fresh(), (), rng.choice(NICE)))   # dimensionless (angle-like)
        self.unit_plan = units
        for t, d, s in units:
            self.sizes[t] = s

    def size_nf(self, nf):
        v = M.p_value(nf[0])
        if not isinstance(v, Fraction):
            return None
        for t, e in nf[1]:
            if t not in self.sizes:
                self.sizes[t] = Fraction(self.snap["shipped_sizes"][t])
            v *= self.sizes[t] ** e
        return v

    def dimname_for(self, d):
        for n, v in sorted(self.model.dims.items()):
            if v == d:
                return n
        return None

    def emit_define(self, t, d):
        dn = self.dimname_for(d)
        if dn is None:
            return False
        ref = self.emit({"op": "dim_unit", "dim": ["d", dn], "name": t, "symbol": t,
                         "size": str(self.sizes[t])})
        self.model.define_unit(t, t, d)
        self.unit_ref[t] = ref
        self.by_dim.setdefault(d, []).append(t)
        return True

    # expressions over defined units: returns (ref, nf)
    def unit_expr(self, nf):
        """Emit ops that build the unit with normal form nf from defined units."""
        ref, cur = None, None
        items = list(nf[1])
        self.rng.shuffle(items)
        for t, e in items:
            r = self.unit_ref[t]
            if e != 1:
                r = self.emit({"op": "u_pow", "a": r, "n": e})
            if ref is None:
                ref = r
            else:
                ref = self.emit({"op": "u_mul", "a": ref, "b": r})
        if ref is None:
            ref = ["u", "one"]
        if nf[0]:
            p = self.prefix_for(nf[0])
            ref = self.emit({"op": "p_mul_u", "p": p, "u": ref})
        return ref

    def prefix_for(self, mp):
        for n, v in sorted(self.model.prefix_names.items()):
            if v == mp:
                return ["p", n]
        for r, v in self.prefixes:
            if v == mp:
                return r
        (b, e), = mp
        r = self.emit({"op": "prefix_new", "base": b, "exp": int(e)})
        self.prefixes.append((r, mp))
        return r

    def random_prefix(self):
        rng = self.rng
        if rng.random() < 0.6:
            return ()
        if rng.random() < 0.2:
            # binary prefixes: conversions then mix bases (2 vs 10)
            if "kibi" in self.model.prefix_names and rng.random() < 0.7:
                return self.model.prefix_names[rng.choice(["kibi", "mebi"])]
            return M.p_norm([(2, rng.choice([10, 3, 20, -4]))])
        if self.have_si:
            n = rng.choice(["kilo", "milli", "mega", "micro", "centi", "hecto", "giga"])
            return self.model.prefix_names[n]
        return M.p_norm([(10, rng.choice([3, -3, 6, -2, 2]))])

    # a compound of fundamental-dimension units with the given dimension
    def expansion(self, d, allow_derived=True):
        rng = self.rng
        items = []
        for i, x in enumerate(d):
            if x == 0:
                continue
            fv = tuple([0] * i + [1])
            cands = [c for c in self.by_dim.get(M.d_norm(fv), []) if c not in self.extreme] or \
                [c for c in self.by_dim.get(M.d_norm(fv), []) if c not in self.unsized]
            if not cands:
                return None
            # possibly split the exponent over two different units of that dimension
            if abs(x) >= 2 and len(cands) >= 2 and rng.random() < 0.3:
                a, b = rng.sample(cands, 2)
                s = 1 if x > 0 else -1
                items.append((a, s))
                items.append((b, x - s))
            else:
                items.append((rng.choice(cands), x))
        return ((), M.f_norm(items))

    def emit_declare(self, a_tok, expr_nf, prefix=()):
        expr_nf = (prefix, expr_nf[1])
        a_nf = ((), ((a_tok, 1),))
        if a_nf == expr_nf or frozenset([a_nf, expr_nf]) in self.declared:
            return False
        ratio = self.size_nf(a_nf) / self.size_nf(expr_nf)
        if ratio.denominator == 1 and abs(ratio.numerator) < 10 ** 12:
            m = ["int", str(ratio.numerator)]
        else:
            m = ["float", repr(float(ratio))]
        eref = self.unit_expr(expr_nf)
        self.emit({"op": "declare", "a": self.unit_ref[a_tok], "m": m, "expr": eref})
        self.declared.add(frozenset([a_nf, expr_nf]))
        self.decl_list.append((a_nf, expr_nf))
        self.decl_count[a_tok] = self.decl_count.get(a_tok, 0) + 1
        self.first_decl.setdefault(a_tok, (expr_nf, prefix))
        for tt, _ in expr_nf[1]:
            self.used_as_expr.add(tt)
        if len(expr_nf[1]) > 1 or sum(e for _, e in expr_nf[1]) > 1:
            self.model.compound_declared.add(a_tok)
        return True

    # ---------------------------------------------------------- queries
    def shape(self):
        """A source unit shape in the C04 space: <=3 factors, |e|<=3."""
        rng = self.rng
        toks = [t for t in self.unit_ref]
        if not toks:
            return None
        k = rng.choice([1, 1, 2, 2, 3])
        items = []
        for t in rng.sample(toks, min(k, len(toks))):
            items.append((t, rng.choice([1, 1, 1, 2, 2, 3, -1, -1, -2, -3])))
        return (self.random_prefix(), M.f_norm(items))

    def target_for(self, src):
        """A different unit of equal dimension: per-factor substitution and/or
        derived<->fundamental expansion."""
        rng = self.rng
        items = []
        for t, e in src[1]:
            d = self.model.base_dim[t]
            r = rng.random()
            same = [x for x in self.by_dim.get(d, []) if x != t]
            if r < 0.55 and same:
                items.append((rng.choice(same), e))
            elif r < 0.8 and M.d_degree(d) > 1:
                ex = self.expansion(d)
                if ex is None:
                    items.append((t, e))
                else:
                    items.extend((tt, ee * e) for tt, ee in ex[1])
            else:
                items.append((t, e))
        # possibly contract a fundamental compound into a derived named unit
        nf = (self.random_prefix(), M.f_norm(items))
        if len(nf[1]) > 3 or any(abs(e) > 3 for _, e in nf[1]):
            return None
        return nf

    def regroup_target(self, src):
        """A target of equal dimension that groups it differently: derived-dimension
        units (positive-only dimensions, positive powers) are subtracted greedily
        while they fit, the rest is filled with fundamental units
        (e.g. length^2 area^2 <-> volume^2)."""
        rng = self.rng
        d = self.model.dim_of(src)
        if not d or any(x < 0 for x in d):
            return None
        rem = list(d)
        items = []
        ders = [t for t in self.unit_ref
                if M.d_degree(self.model.base_dim[t]) > 1 and all(x >= 0 for x in self.model.base_dim[t])]
        rng.shuffle(ders)
        for t in ders[:3]:
            dt = self.model.base_dim[t]
            k = 0
            while len(dt) <= len(rem) and all(rem[i] >= dt[i] for i in range(len(dt))) and k < 3 and rng.random() < 0.8:
                for i in range(len(dt)):
                    rem[i] -= dt[i]
                k += 1
            if k:
                items.append((t, k))
        ex = self.expansion(M.d_norm(rem)) if any(rem) else ((), ())
        if ex is None:
            return None
        nf = (self.random_prefix() if rng.random() < 0.3 else (), M.f_norm(items + list(ex[1])))
        if len(nf[1]) > 3 or any(abs(e) > 3 for _, e in nf[1]) or not nf[1]:
            return None
        return nf

    def product_definition(self, t):
        """Declare a fundamental-dimension unit in terms of a product involving a derived
        unit (like light-year = c * year):  t = r * (derived * fundamental^k ...)."""
        rng = self.rng
        d = self.model.base_dim[t]
        ders = [u for u in self.unit_ref if M.d_degree(self.model.base_dim[u]) > 1 and self.decl_count.get(u)
                and u not in self.unsized]
        rng.shuffle(ders)
        for u in ders:
            rest = M.d_div(d, self.model.base_dim[u])
            if M.d_degree(rest) > 3:
                continue
            ex = self.expansion(rest) if rest else ((), ())
            if ex is None:
                continue
            nf = ((), M.f_norm([(u, 1)] + list(ex[1])))
            if len(nf[1]) < 2:
                continue
            return self.emit_declare(t, nf)
        return False

    def contraction_pair(self):
        """source = compound of fundamental units, target = named derived unit (^k)."""
        rng = self.rng
        der = [t for t in self.unit_ref if M.d_degree(self.model.base_dim[t]) > 1]
        if not der:
            return None
        t = rng.choice(der)
        k = rng.choice([1, 1, 1, 2])
        ex = self.expansion(self.model.base_dim[t])
        if ex is None:
            return None
        src = (self.random_prefix(), M.f_norm((tt, ee * k) for tt, ee in ex[1]))
        dst = (self.random_prefix(), ((t, k),))
        if len(src[1]) > 3 or any(abs(e) > 3 for _, e in src[1]):
            return None
        return (src, dst) if rng.random() < 0.5 else (dst, src)

    def query_pair(self):
        for _ in range(20):
            if self.rng.random() < 0.25:
                pr = self.contraction_pair()
                if pr is None:
                    continue
                src, dst = pr
            else:
                src = self.shape()
                if src is None:
                    return None
                dst = self.regroup_target(src) if self.rng.random() < 0.2 else self.target_for(src)
                if dst is None:
                    continue
            if src == dst and self.rng.random() < 0.9:
                continue
            if self.model.dim_of(src) != self.model.dim_of(dst):
                continue
            if not self.params.get("outside_region") and pair_class(self.model, src, dst):
                continue
            return src, dst
        return None

    def magnitude(self):
        r = self.rng.random()
        if r < 0.35:
            v = self.rng.choice([1, 2, 3, 5, 7, 12, 100, -1, -4, 1000, 0])
            return ["int", str(v)], Fraction(v)
        if r < 0.8:
            v = self.rng.choice([0.5, 1.5, 2.25, -3.75, 1e-3, 1e6, 0.1, 7.0, 0.0, 123.456])
            return ["float", repr(v)], Fraction(v)
        v = self.rng.choice(["1.5", "0.001", "12", "-2.50", "1E+3", "0"])
        return ["dec", v], Fraction(v)

    def g_query(self):
        pr = self.query_pair()
        if pr is None:
            return
        src, dst = pr
        rng = self.rng
        sref = self.unit_expr(src)
        dref = self.unit_expr(dst)
        self.pairs.append((src, dst))
        mspec, mval = self.magnitude()
        q = self.emit({"op": "q_new", "m": mspec, "u": sref, "how": "mul"})
        kind = rng.choice(self.query_kinds)
        if kind == "convert":
            r = self.emit({"op": "convert", "q": q, "u": dref})
            self.qtys.append((r, dst))
            self.queries.append(self.ops[-1])
            if rng.random() < 0.3:
                # ping-pong: the opposite direction right away (no declaration in between)
                m2, _ = self.magnitude()
                q2 = self.emit({"op": "q_new", "m": m2, "u": dref, "how": "mul"})
                r2 = self.emit({"op": "convert", "q": q2, "u": sref})
                self.qtys.append((r2, src))
                self.queries.append(self.ops[-1])
        elif kind in ("cmp==", "cmp<"):
            m2, _ = self.magnitude()
            q2 = self.emit({"op": "q_new", "m": m2, "u": dref, "how": "mul"})
            self.emit({"op": "cmp", "f": kind[3:], "a": q, "b": q2})
            self.queries.append(self.ops[-1])
        elif kind in ("+", "-"):
            m2, _ = self.magnitude()
            q2 = self.emit({"op": "q_new", "m": m2, "u": dref, "how": "mul"})
            self.emit({"op": "q_bin", "f": kind, "a": q, "b": q2})
            self.queries.append(self.ops[-1])
        elif kind == "linear":
            self.emit({"op": "conv_linear", "q": q, "u": dref,
                       "k": rng.choice([["int", "0"], ["int", "-1"], ["int", "2"], ["float", "0.001"],
                                        ["float", repr(7 / 3)]])})
        elif kind == "roundtrip":
            self.emit({"op": "conv_roundtrip", "q": q, "u": dref})
        elif kind == "self":
            self.emit({"op": "conv_self", "q": q})
        elif kind == "via":
            # an intermediate of equal dimension
            for _ in range(5):
                mid = self.target_for(src)
                if mid is not None and self.model.dim_of(mid) == self.model.dim_of(src) and \
                        not pair_class(self.model, src, mid) and not pair_class(self.model, mid, dst):
                    mref = self.unit_expr(mid)
                    self.emit({"op": "conv_via", "q": q, "via": mref, "u": dref})
                    break
        elif kind == "sorted":
            m2, _ = self.magnitude()
            m3, _ = self.magnitude()
            q2 = self.emit({"op": "q_new", "m": m2, "u": dref, "how": "mul"})
            q3 = self.emit({"op": "q_new", "m": m3, "u": sref, "how": "mul"})
            self.emit({"op": "sorted", "qs": [q, q2, q3]})

    def g_chain(self):
        """Convert the result of an earlier conversion again (C05 chains)."""
        if not self.qtys:
            return self.g_query()
        q, nf = self.rng.choice(self.qtys)
        for _ in range(5):
            dst = self.target_for(nf)
            if dst is not None and self.model.dim_of(dst) == self.model.dim_of(nf) and \
                    not pair_class(self.model, nf, dst):
                dref = self.unit_expr(dst)
                r = self.emit({"op": "convert", "q": q, "u": dref})
                self.qtys.append((r, dst))
                self.queries.append(self.ops[-1])
                return

    def g_ladder(self):
        """The same pair of units at rising powers (x -> y, x^2 -> y^2, x^-3 -> y^-3):
        pure powers of units that may be several equivalence hops apart, first at a
        low power and then at a higher one."""
        rng = self.rng
        dims = [d for d, ts in self.by_dim.items() if len(ts) >= 2 and M.d_degree(d) == 1 and max(d) == 1]
        if not dims:
            return self.g_query()
        d = rng.choice(sorted(dims))
        a, b = rng.sample(self.by_dim[d], 2)
        powers = rng.choice([[1, 2], [1, 3], [1, 2, 3], [2, 1], [1, -2], [-1, -3], [2, 3]])
        for k in powers:
            src, dst = ((), ((a, k),)), ((), ((b, k),))
            if pair_class(self.model, src, dst):
                continue
            sref, dref = self.unit_expr(src), self.unit_expr(dst)
            mspec, _ = self.magnitude()
            q = self.emit({"op": "q_new", "m": mspec, "u": sref, "how": "mul"})
            kind = rng.choice(self.query_kinds)
            if kind in ("linear", "roundtrip", "via", "self", "sorted", "cmp==", "cmp<", "+", "-"):
                if kind == "roundtrip":
                    self.emit({"op": "conv_roundtrip", "q": q, "u": dref})
                    continue
                if kind == "linear":
                    self.emit({"op": "conv_linear", "q": q, "u": dref, "k": ["int", "2"]})
                    continue
            r = self.emit({"op": "convert", "q": q, "u": dref})
            self.qtys.append((r, dst))
            self.queries.append(self.ops[-1])

    def g_reverse(self):
        """Ask an earlier conversion in the opposite direction (planning is
        direction-dependent: some pairs convert one way only)."""
        if not self.pairs:
            return self.g_query()
        src, dst = self.rng.choice(self.pairs)
        sref, dref = self.unit_expr(dst), self.unit_expr(src)
        mspec, _ = self.magnitude()
        q = self.emit({"op": "q_new", "m": mspec, "u": sref, "how": "mul"})
        kind = self.rng.choice(["convert", "convert", "cmp<", "cmp=="])
        if kind == "convert" or self.prop in ("C04", "C05"):
            r = self.emit({"op": "convert", "q": q, "u": dref})
            self.qtys.append((r, src))
        else:
            m2, _ = self.magnitude()
            q2 = self.emit({"op": "q_new", "m": m2, "u": dref, "how": "mul"})
            self.emit({"op": "cmp", "f": kind[3:], "a": q, "b": q2})
        self.queries.append(self.ops[-1])

    def g_endpoint(self):
        """Convert between exactly the two sides of an earlier declaration (the declared
        expression, prefix included, is itself a node of the equivalence graph), in either
        direction, optionally both raised to one power."""
        rng = self.rng
        if not self.decl_list:
            return self.g_query()
        a_nf, e_nf = rng.choice(self.decl_list)
        k = rng.choice([1, 1, 1, 2, -1, 3])
        src, dst = M.u_pow(e_nf, k), M.u_pow(a_nf, k)
        if rng.random() < 0.4:
            src, dst = dst, src
        if any(abs(e) > 3 for _, e in src[1] + dst[1]) or any(t not in self.unit_ref for t, _ in src[1] + dst[1]):
            return self.g_query()
        if not self.params.get("outside_region") and pair_class(self.model, src, dst):
            return self.g_query()
        sref, dref = self.unit_expr(src), self.unit_expr(dst)
        self.pairs.append((src, dst))
        mspec, _ = self.magnitude()
        q = self.emit({"op": "q_new", "m": mspec, "u": sref, "how": "mul"})
        r = self.emit({"op": "convert", "q": q, "u": dref})
        self.qtys.append((r, dst))
        self.queries.append(self.ops[-1])
        self.probe_endpoint = True

    def g_repeat(self):
        if not self.queries:
            return self.g_query()
        old = self.rng.choice(self.queries)
        new = {k: v for k, v in old.items() if k not in ("id", "inject", "repeat_of")}
        new["repeat_of"] = old.get("repeat_of", old["id"])
        self.emit(new)

    def g_redeclare(self):
        """Re-declare a leaf unit (exactly one declaration, nothing defined in terms of
        it) with a new size: the system stays exactly consistent, and every later
        answer must follow the new ratio."""
        rng = self.rng
        leaves = [t for t, n in self.decl_count.items() if n == 1 and t not in self.used_as_expr
                  and M.d_degree(self.model.base_dim[t]) == 1]
        if not leaves:
            return self.g_query()
        t = rng.choice(sorted(leaves))
        partner_nf, prefix = self.first_decl[t]
        new = rng.choice(NICE) * rng.choice([1, 7, Fraction(1, 3)])
        if new == self.sizes[t]:
            return
        a_nf = ((), ((t, 1),))
        expr_nf = (prefix, partner_nf[1])
        probe = not pair_class(self.model, a_nf, expr_nf) and not pair_class(self.model, expr_nf, a_nf) \
            and rng.random() < 0.7
        if probe:
            # ask for the pair before it is re-declared (whatever is memoised is then stale) ...
            src, dst = (a_nf, expr_nf) if rng.random() < 0.5 else (expr_nf, a_nf)
            mspec, _ = self.magnitude()
            q = self.emit({"op": "q_new", "m": mspec, "u": self.unit_expr(src), "how": "mul"})
            self.emit({"op": "convert", "q": q, "u": self.unit_expr(dst)})
            self.queries.append(self.ops[-1])
        # the same pair inside a compound of another dimension (t/u -> partner/u): plans memoised
        # for *that* dimension go stale too
        cross = None
        others = [u for u in self.unit_ref if self.model.base_dim[u] != self.model.base_dim[t]
                  and u not in self.unsized and u not in self.extreme]
        if probe and others and rng.random() < 0.7:
            u, k = rng.choice(sorted(others)), rng.choice([-1, -1, 1, -2])
            c_src = ((), M.f_norm([(t, 1), (u, k)]))
            c_dst = (prefix, M.f_norm(list(partner_nf[1]) + [(u, k)]))
            if len(c_dst[1]) <= 3 and all(abs(e) <= 3 for _, e in c_dst[1]) and \
                    not pair_class(self.model, c_src, c_dst):
                cross = (c_src, c_dst)
                mspec, _ = self.magnitude()
                q = self.emit({"op": "q_new", "m": mspec, "u": self.unit_expr(c_src), "how": "mul"})
                self.emit({"op": "convert", "q": q, "u": self.unit_expr(c_dst)})
                self.queries.append(self.ops[-1])
        self.sizes[t] = new
        ratio = self.size_nf(a_nf) / self.size_nf(expr_nf)
        m = ["int", str(ratio.numerator)] if ratio.denominator == 1 and abs(ratio.numerator) < 10 ** 12 \
            else ["float", repr(float(ratio))]
        eref = self.unit_expr(expr_nf)
        self.emit({"op": "declare", "a": self.unit_ref[t], "m": m, "expr": eref,
                   "resize": {"token": t, "size": str(new)}})
        if probe:
            # ... and in both directions right after it
            for src, dst in ((a_nf, expr_nf), (expr_nf, a_nf)):
                mspec, _ = self.magnitude()
                q = self.emit({"op": "q_new", "m": mspec, "u": self.unit_expr(src), "how": "mul"})
                if self.prop == "C05" and rng.random() < 0.5:
                    self.emit({"op": "conv_roundtrip", "q": q, "u": self.unit_expr(dst)})
                else:
                    r = self.emit({"op": "convert", "q": q, "u": self.unit_expr(dst)})
                    self.qtys.append((r, dst))
                    self.queries.append(self.ops[-1])
        if cross:
            mspec, _ = self.magnitude()
            q = self.emit({"op": "q_new", "m": mspec, "u": self.unit_expr(cross[0]), "how": "mul"})
            r = self.emit({"op": "convert", "q": q, "u": self.unit_expr(cross[1])})
            self.qtys.append((r, cross[1]))
            self.queries.append(self.ops[-1])

    def g_evict(self):
        from sim.faults import CACHE_NAMES

        k = self.rng.randint(1, len(CACHE_NAMES))
        self.emit({"op": "evict", "caches": sorted(self.rng.sample(list(CACHE_NAMES), k))})

    def g_unrelated(self):
        """A query on shipped units (if any) or a failing query, in between."""
        rng = self.rng
        toks = list(self.unit_ref)
        if len(toks) >= 2:
            a, b = rng.sample(toks, 2)
            q = self.emit({"op": "q_new", "m": ["int", "1"], "u": self.unit_ref[a], "how": "mul"})
            self.emit({"op": "convert", "q": q, "u": self.unit_ref[b]})

    QUERY_KINDS = {
        "C08": ["convert"] * 6 + ["cmp==", "cmp<", "+", "-"],
        "C04": ["convert"] * 8 + ["+", "-"],
        "C05": ["convert", "linear", "linear", "roundtrip", "roundtrip", "self", "via", "via"],
        "C07": ["convert"] * 4 + ["cmp==", "cmp<", "+", "-", "sorted"],
    }

    def generate(self):
        rng = self.rng
        self.query_kinds = self.QUERY_KINDS.get(self.prop, self.QUERY_KINDS["C08"])
        if self.params.get("shipped") and self.snap.get("shipped_sized"):
            self.plan_shipped()
            # units already declared by the shipped modules count as declared
            for t in self.shipped_tokens:
                self.decl_count[t] = 2
                self.used_as_expr.add(t)
        else:
            self.plan_system()
        # the planned definitions and declarations, in seeded order
        defs = list(self.unit_plan)
        rng.shuffle(defs)
        decl_queue = []
        pending_defs = list(defs)
        n_target = rng.choice([15, 25, 25, 40, 60] if not self.params.get("long") else [25, 40, 60, 90, 120])
        inject_budget = 1 if (self.params.get("faults", True) and rng.random() < 0.25) else 0
        early_queries = rng.random() < 0.6
        # per-run knob: build (almost) the whole system first, then a long declaration-free
        # query phase (history effects between queries are then not masked by invalidation)
        front_load = rng.random() < 0.35
        tries = {}
        guard = 0
        extended = False
        while len(self.ops) < n_target and guard < 600:
            guard += 1
            if front_load and not extended and not pending_defs and not decl_queue:
                # the system is built: now a declaration-free query phase of seeded length
                extended = True
                n_target = min(100, len(self.ops) + rng.choice([15, 25, 40]))
            r = rng.random()
            if front_load and (pending_defs or decl_queue) and guard < 300:
                n_target = max(n_target, len(self.ops) + 20)
                r = r * 0.5 if pending_defs else 0.36 + r * 0.15
            if pending_defs and (r < 0.35 or len(self.unit_ref) < 2):
                t, d, s = pending_defs.pop()
                if not self.emit_define(t, d):
                    continue
                decl_queue.append(t)
                continue
            if decl_queue and r < (0.55 if early_queries else 0.8):
                t = decl_queue.pop(rng.randrange(len(decl_queue)))
                tries[t] = tries.get(t, 0) + 1
                if tries[t] > 4:
                    continue   # cannot be declared with the units this system has: drop it
                d = self.model.base_dim[t]
                done = False
                same_d = [x for x in self.by_dim.get(d, []) if x != t and self.decl_count.get(x)
                          and x not in self.unsized]
                if M.d_degree(d) > 1 and same_d and not self.decl_count.get(t) and rng.random() < 0.5:
                    # an "indirect" derived unit: defined only relative to another unit of
                    # its own dimension (like cup = 1/2 pint), not to a compound
                    done = self.emit_declare(t, ((), ((rng.choice(same_d), 1),)))
                    if done and rng.random() < 0.3:
                        decl_queue.append(t)
                elif M.d_degree(d) > 1:
                    ex = self.expansion(d)
                    if ex is not None:
                        done = self.emit_declare(t, ex, self.random_prefix() if rng.random() < 0.3 else ())
                        if done and rng.random() < 0.4:
                            decl_queue.append(t)  # a redundant second definition later
                    else:
                        decl_queue.append(t)
                        if not pending_defs:
                            decl_queue.remove(t)
                        continue
                elif M.d_degree(d) == 1 and rng.random() < 0.15 and self.product_definition(t):
                    self.probe_product_defined = True
                else:
                    same = [x for x in self.by_dim.get(d, []) if x != t and x not in self.unsized]
                    if same:
                        o = rng.choice(same)
                        done = self.emit_declare(t, ((), ((o, 1),)),
                                                 self.random_prefix() if rng.random() < 0.2 else ())
                        if done and rng.random() < 0.35:
                            decl_queue.append(t)  # redundant path
                    elif pending_defs:
                        decl_queue.append(t)
                continue
            if len(self.unit_ref) < 2:
                continue
            k = rng.choices(["query", "chain", "repeat", "evict", "unrelated", "redeclare", "ladder", "reverse",
                             "endpoint"],
                            [10, 3, 3, 2, 1, {"C08": 1.5, "C05": 1.0}.get(self.prop, 0.3), 2, 2.5, 1.5])[0]
            before = len(self.ops)
            getattr(self, "g_" + k)()
            if inject_budget and len(self.ops) > before and rng.random() < 0.15:
                last = self.ops[-1]
                if last["op"] in ("convert", "cmp", "q_bin"):
                    last["inject"] = {"ordinal": rng.choice([3, 8, 13, 21, 34, 55, 89, 144]),
                                      "exc": rng.choice(["KeyboardInterrupt", "MemoryError"])}
                    inject_budget = 0
        return self.ops


def generate(seed, prop, snapshot, params):
    return GenB(seed, prop, snapshot, params).generate()
