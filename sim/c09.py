"""C09 — the shipped definitions, observed as a declaration history by the boot
tracer, are mutually consistent and connected to SI.

solve(events) is pure (no library import): unknowns are the sizes of named base
units; SI base units, radian, bit and `one` anchor at 1.  A declaration that
introduces exactly one unknown solves it (exact rationals where possible); every
other declaration closes a cycle and must have a residual <= 1e-5 per unit of
exponent degree.  Events are processed in canonical (module, line) order so that
the verdict does not depend on the import order of the boot.
"""
import math
from decimal import Decimal, getcontext
from fractions import Fraction

from sim.boot import ALL_MODULES
from sim.util import canon, digest

getcontext().prec = 60

ANCHORS = {"one": 1, "meter": 1, "second": 1, "gram": Fraction(1, 1000), "coulomb": 1, "kelvin": 1,
           "mole": 1, "candela": 1, "radian": 1, "bit": 1}
# coherent SI unit per fundamental dimension index (library order:
# number, length, time, mass, temperature, charge, amount, luminous intensity, information)
SI_BY_INDEX = {1: "meter", 2: "second", 3: "kilogram", 4: "kelvin", 5: "coulomb", 6: "mole",
               7: "candela", 8: "bit"}
MODULE_ORDER = ["__init__.py", "geometry.py", "si.py"] + [m + ".py" for m in ALL_MODULES if m != "si"] + ["physics.py"]
TOL = 1e-5


def num(text, typ):
    """Exact value of a declared magnitude from its repr."""
    t = text
    if t.startswith("Decimal('"):
        t = t[9:-2]
    if typ == "int":
        return Fraction(int(t))
    return Fraction(Decimal(t))


def prefix_value(p):
    base, exp = p
    if base == 0:
        return Fraction(1)
    e = Fraction(Decimal(str(exp))) if not isinstance(exp, int) else Fraction(exp)
    if e.denominator == 1:
        return Fraction(base) ** int(e)
    return Fraction(Decimal(base) ** Decimal(str(float(e))))


def site_key(ev):
    site = ev.get("site") or ["?", 0]
    mod = site[0]
    rank = MODULE_ORDER.index(mod) if mod in MODULE_ORDER else len(MODULE_ORDER)
    return (rank, mod, site[1])


def frac_root(v, k):
    """k-th root of a positive Fraction: exact when it is a perfect power."""
    if k == 1:
        return v
    if k < 0:
        return frac_root(1 / v, -k)
    n = round(v.numerator ** (1.0 / k)) if v.numerator < 10 ** 300 else None
    d = round(v.denominator ** (1.0 / k)) if v.denominator < 10 ** 300 else None
    if n is not None and d is not None and n ** k == v.numerator and d ** k == v.denominator:
        return Fraction(n, d)
    x = Decimal(v.numerator) / Decimal(v.denominator)
    r = x.ln() / Decimal(k)
    return Fraction(r.exp())


class Equation:
    def __init__(self, ev):
        self.ev = ev
        a, b = ev["a"], ev["b"]
        self.ma = num(a["m"], a["mt"])
        self.mb = num(b["m"], b["mt"])
        self.pa = prefix_value(a["u"]["prefix"])
        self.pb = prefix_value(b["u"]["prefix"])
        # a.m * size(a.u) == b.m * size(b.u)   <=>   prod tokens^exp == rhs
        exps = {}
        for t, e in a["u"]["factors"]:
            exps[t] = exps.get(t, 0) + e
        for t, e in b["u"]["factors"]:
            exps[t] = exps.get(t, 0) - e
        self.exps = {t: e for t, e in exps.items() if e != 0}
        self.degree = max(1, sum(abs(e) for _, e in a["u"]["factors"]) + sum(abs(e) for _, e in b["u"]["factors"]))
        self.trivial = not self.exps
        self.rhs = None
        if self.ma != 0 and self.mb != 0:
            self.rhs = (self.mb * self.pb) / (self.ma * self.pa)

    def where(self):
        site = self.ev.get("site") or ["?", 0]
        return "%s:%s" % (site[0], site[1])

    def text(self):
        a, b = self.ev["a"], self.ev["b"]

        def u(d):
            return "*".join("%s^%d" % (t, e) if e != 1 else t for t, e in d["u"]["factors"]) or "one"
        return "%s %s == %s %s" % (a["m"], u(a), b["m"], u(b))


def solve(events):
    eqs = [Equation(ev) for ev in sorted((e for e in events if e.get("f") == "equate"), key=site_key)]
    sizes = {t: Fraction(v) for t, v in ANCHORS.items()}
    solved_by = {}
    residuals = []     # (equation, residual)
    pending = [e for e in eqs if not e.trivial and e.rhs is not None]
    progress = True
    checked = 0
    while progress:
        progress = False
        still = []
        for e in pending:
            unknown = [t for t in e.exps if t not in sizes]
            if len(unknown) == 0:
                v = Fraction(1)
                for t, x in e.exps.items():
                    v *= sizes[t] ** x
                checked += 1
                r = abs(float(v / e.rhs) - 1.0) if e.rhs != 0 else float("inf")
                residuals.append((e, r))
                progress = True
            elif len(unknown) == 1:
                t = unknown[0]
                v = e.rhs
                for tt, x in e.exps.items():
                    if tt != t:
                        v /= sizes[tt] ** x
                if v <= 0:
                    still.append(e)
                    continue
                sizes[t] = frac_root(v, e.exps[t])
                solved_by[t] = e
                progress = True
            else:
                still.append(e)
        pending = still
    return {"sizes": sizes, "residuals": residuals, "unsolved": pending, "equations": eqs,
            "solved_by": solved_by, "cycle_edges": checked}


def compound_declared(solved):
    """Base-unit tokens that have a declared equivalence to a compound expression."""
    out = set()
    for e in solved["equations"]:
        for side, other in ((e.ev["a"], e.ev["b"]), (e.ev["b"], e.ev["a"])):
            f = side["u"]["factors"]
            g = other["u"]["factors"]
            if len(f) == 1 and f[0][1] == 1 and (len(g) > 1 or sum(x for _, x in g) > 1):
                out.add(f[0][0])
    return out


def analyse(events):
    s = solve(events)
    violations = []
    for e, r in s["residuals"]:
        if r > TOL * e.degree:
            violations.append({
                "clause": "C09.consistent",
                "signature": "C09/residual/%s" % e.where().split(":")[0] + ":" + e.text(),
                "step": 0,
                "detail": {"declared_at": e.where(), "declaration": e.text(), "residual": r,
                           "tolerance": TOL * e.degree}})
    for e in s["unsolved"]:
        unknown = sorted(t for t in e.exps if t not in s["sizes"])
        violations.append({
            "clause": "C09.connected", "signature": "C09/unanchored/" + "+".join(unknown), "step": 0,
            "detail": {"declared_at": e.where(), "declaration": e.text(), "unknown": unknown}})
    return s, violations


def run(req, boot):
    """BOOT engine entry: analysis of the recorded history, then (in this forked
    world) conversion of every named unit to and from the coherent SI unit."""
    import measured as L
    from measured.conversions import ConversionNotFound

    events = boot.events or []
    s, violations = analyse(events)
    sizes = s["sizes"]
    counters = {"C09.declarations": len(s["equations"]), "C09.cycle_edges.checked": s["cycle_edges"],
                "C09.units_solved": len(sizes)}
    # scale (offset) units are affine: only reachability is required of them
    scales = set()
    for ev in events:
        if ev.get("f") == "translate":
            for n in ev["scale"].get("names", []):
                scales.add(n)
    # a unit that never appears in any declaration is disconnected by construction
    mentioned = set()
    for e in s["equations"]:
        mentioned.update(e.exps)
    log = []
    have = L.Unit._by_name
    checked = 0
    for name in sorted(have):
        u = have[name]
        try:
            if not (len(u.factors) == 1 and next(iter(u.factors)) is u):
                continue   # derived names are products of base units: covered through their factors
            if name != u.names[0]:
                continue
            d = tuple(u.dimension.exponents)
        except AttributeError:
            continue
        if not any(d):
            continue   # dimensionless: no physical dimension
        si = L.One
        ok_si = True
        for i, x in enumerate(d):
            if x == 0:
                continue
            b = SI_BY_INDEX.get(i)
            if b is None or b not in have:
                ok_si = False
                break
            si = si * have[b] ** x
        if not ok_si:
            counters["C09.si.skipped-no-coherent-unit"] = counters.get("C09.si.skipped-no-coherent-unit", 0) + 1
            continue
        if si is u:
            continue
        checked += 1
        want = None
        if name in sizes and name not in scales:
            v = sizes[name]
            for i, x in enumerate(d):
                if x:
                    v /= sizes[SI_BY_INDEX[i]] ** x
            want = v
        for direction in ("to", "from"):
            try:
                if direction == "to":
                    got = (1 * u).in_unit(si).magnitude
                    w = want
                else:
                    got = (1 * si).in_unit(u).magnitude
                    w = (1 / want) if want else None
                out = "ok"
            except ConversionNotFound:
                out = "ConversionNotFound"
            except Exception as e:  # AssertionError from the planner, ...
                out = type(e).__name__
            rec = {"unit": name, "dir": direction, "out": out}
            if out != "ok":
                violations.append({
                    "clause": "C09.connected", "signature": "C09/si-conversion/%s/%s" % (name, out), "step": 0,
                    "detail": {"unit": name, "direction": direction, "si": str(si), "outcome": out}})
            elif w is not None:
                deg = max(1, sum(abs(x) for x in d))
                err = abs(float(Fraction(got) / w) - 1.0) if w != 0 else float("inf")
                rec["err"] = "%.1e" % err if err > 1e-12 else "0"
                if err > TOL * deg * 2:
                    violations.append({
                        "clause": "C09.consistent", "signature": "C09/si-value/%s" % name, "step": 0,
                        "detail": {"unit": name, "direction": direction, "got": repr(got), "want": str(float(w)),
                                   "rel_err": err}})
            log.append(rec)
    counters["C09.si.units.checked"] = checked
    # one violation per signature
    seen, uniq = set(), []
    for v in violations:
        if v["signature"] not in seen:
            seen.add(v["signature"])
            uniq.append(v)
    lines = [canon({"decl": len(s["equations"]), "viol": sorted(seen)})] + [canon(l) for l in log]
    return {"digest": digest(lines), "n_ops": len(s["equations"]) + checked, "violations": uniq,
            "counters": counters, "probes": {}, "faults_fired": {},
            "sizes": {t: str(v) for t, v in sizes.items()} if req.get("want_sizes") else None}
