"""Delta debugging over operation lists (and simple argument simplification).

`test(ops) -> bool` must return True when the candidate still shows the same
violation signature.  Every evaluation is one fresh world (fork), so results are
independent of each other.
"""


def ddmin(ops, test, max_evals=400):
    evals = [0]

    def t(cand):
        evals[0] += 1
        return test(cand)

    n = 2
    cur = list(ops)
    while len(cur) >= 2 and evals[0] < max_evals:
        chunk = max(1, len(cur) // n)
        reduced = False
        # try removing each chunk
        i = 0
        while i < len(cur) and evals[0] < max_evals:
            cand = cur[:i] + cur[i + chunk:]
            if cand and t(cand):
                cur = cand
                n = max(n - 1, 2)
                reduced = True
            else:
                i += chunk
        if not reduced:
            if chunk == 1:
                break
            n = min(len(cur), n * 2)
    # final single-op pass
    i = 0
    while i < len(cur) and len(cur) > 1 and evals[0] < max_evals:
        cand = cur[:i] + cur[i + 1:]
        if t(cand):
            cur = cand
        else:
            i += 1
    return cur, evals[0]


def simplify_args(ops, test, max_evals=100):
    """Shrink integer arguments toward +-1/2, drop fault annotations."""
    evals = 0
    cur = [dict(o) for o in ops]
    for i, op in enumerate(cur):
        if "inject" in op and evals < max_evals:
            cand = [dict(o) for o in cur]
            cand[i].pop("inject")
            evals += 1
            if test(cand):
                cur = cand
        if "n" in cur[i] and isinstance(cur[i]["n"], int) and abs(cur[i]["n"]) > 2:
            for v in (2 if cur[i]["n"] > 0 else -2,):
                if evals >= max_evals:
                    break
                cand = [dict(o) for o in cur]
                cand[i]["n"] = v
                evals += 1
                if test(cand):
                    cur = cand
                    break
    return cur, evals
