"""Template process: one real CPython interpreter that has imported the real
`measured` package under one boot configuration, and forks one child ("world")
per simulated run.

Protocol: JSON lines on the original stdout / stdin.  Library prints are diverted
to stderr so they can never corrupt the protocol.

Launched by sim.driver as:  python [-O] -m sim.template '<boot config json>'
with PYTHONHASHSEED set by the driver.
"""
import json
import os
import signal
import sys
import traceback


def _read_all(fd):
    chunks = []
    while True:
        b = os.read(fd, 1 << 16)
        if not b:
            break
        chunks.append(b)
    return b"".join(chunks)


def _write_all(fd, data):
    view = memoryview(data)
    while view:
        n = os.write(fd, view)
        view = view[n:]


def main():
    cfg = json.loads(sys.argv[1])
    proto_out = os.fdopen(os.dup(1), "wb")
    os.dup2(2, 1)  # anything the library prints goes to stderr
    sys.stdout = sys.stderr

    from sim import boot as bootmod

    try:
        boot = bootmod.boot(cfg)
    except BaseException:
        proto_out.write(
            json.dumps({"ready": False, "error": traceback.format_exc()}).encode()
            + b"\n"
        )
        proto_out.flush()
        return 2

    from sim import dispatch  # imports the engines once, before any fork

    proto_out.write(json.dumps({"ready": True, "boot": boot.summary()}).encode() + b"\n")
    proto_out.flush()

    inp = sys.stdin.buffer
    while True:
        line = inp.readline()
        if not line:
            break
        req = json.loads(line)
        if req.get("kind") == "quit":
            break
        if req.get("kind") == "bootinfo":
            proto_out.write(json.dumps(boot.full()).encode() + b"\n")
            proto_out.flush()
            continue
        # A world may end with {"continue": <request>}: a *restart* (fault F5).  The next
        # world is forked from this template again (fresh interpreter state) and receives
        # only what the previous one made durable (serialized bytes/text in the request).
        cur = req
        hops = 0
        while True:
            data = run_world(cur, boot, dispatch)
            try:
                res = json.loads(data)
            except ValueError:
                break
            nxt = res.get("continue") if isinstance(res, dict) else None
            if not nxt or hops >= 4:
                break
            hops += 1
            cur = nxt
        proto_out.write(data + b"\n")
        proto_out.flush()
    return 0


def run_world(req, boot, dispatch):
    r, w = os.pipe()
    pid = os.fork()
    if pid == 0:
        code = 0
        try:
            os.close(r)
            signal.signal(signal.SIGALRM, signal.SIG_DFL)
            signal.alarm(int(req.get("timeout", 120)))
            try:
                res = dispatch.dispatch(req, boot)
            except BaseException:
                res = {"harness_error": traceback.format_exc()}
            signal.alarm(0)
            _write_all(w, json.dumps(res).encode())
        except BaseException:
            code = 3
        finally:
            os._exit(code)
    os.close(w)
    data = _read_all(r)
    os.close(r)
    _, status = os.waitpid(pid, 0)
    if not data or status != 0:
        data = json.dumps(
            {"harness_error": "world died: wait status %d, %d bytes" % (status, len(data))}
        ).encode()
    return data


if __name__ == "__main__":
    sys.exit(main())
