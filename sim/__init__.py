"""Deterministic simulation harness for chrisguidry/measured (see /verif/DESIGN.md)."""
