"""Per-property check plans: which boots, how many runs, how violations are judged,
minimised, replayed and reported; what evidence is written."""
import json
import os
import random
import time

from sim import driver, shrink
from sim.boot import ALL_MODULES
from sim.report import load_findings, match_finding, out, write_evidence
from sim.util import REPLAY_DIR, VERIF, canon, h64, source_hashes

LEVEL_TEXT = {}


def std_boots(seed, n_random=2, opt=False):
    """Default boot, a small core boot and seeded import orders/subsets."""
    boots = [
        {"imports": list(ALL_MODULES), "trace": False, "opt": opt, "hashseed": 0},
        {"imports": ["si"], "trace": False, "opt": opt, "hashseed": 0},
    ]
    rng = random.Random(h64(seed, "boots"))
    for _ in range(n_random):
        mods = list(ALL_MODULES)
        rng.shuffle(mods)
        k = rng.randint(3, len(mods))
        boots.append({"imports": mods[:k], "trace": False, "opt": opt, "hashseed": 0})
    return boots


class RunPlan:
    """Generic plan for properties decided by many seeded simulated runs."""

    prop = None
    engine = "A"
    level = "exploration"
    quick_runs = 1500
    thorough_runs = 60000
    selftest_quick = 24
    selftest_thorough = 200
    run_timeout = 120
    rule = ""
    components = {
        "real": ["measured (entire package, imported from /repo/src)"],
        "simulated": ["process restarts / fresh worlds (os.fork of a template interpreter)",
                      "asynchronous exceptions (line tracer)", "cache eviction"],
        "stub": [],
    }

    # ---- to override -------------------------------------------------
    def boots(self, tier, seed):
        return std_boots(seed, 2 if tier == "quick" else 8)

    def params(self, tier):
        return {}

    def request(self, run_seed, boot):
        return {"engine": self.engine, "prop": self.prop, "seed": run_seed,
                "params": self.params_cache, "timeout": self.run_timeout}

    def violations_of(self, result):
        return result.get("violations", [])

    def nontrivial(self, result):
        c = result.get("counters", {})
        return result.get("n_ops", 0) > 0 and any(k.endswith(".checked") and v for k, v in c.items())

    def check_tasks(self, tier, seed, n):
        """Explicit task list (boot, request); None = n seeded runs over self.boots()."""
        return None

    expected_reach = ()      # probe / counter / fault names this property's exploration is meant to hit
    batch = 5000
    SLIM_KEYS = ("digest", "n_ops", "sched_steps", "violations", "counters", "probes", "faults_fired",
                 "state_hashes", "interleaving", "harness_error")

    def slim(self, r):
        return {k: r[k] for k in self.SLIM_KEYS if k in r}

    def post_process(self, tasks, results, pool):
        """Hook: derive further violations from the batch (may append to
        results[i]["violations"]); used by differential oracles."""

    def run_one(self, template, req):
        """One complete evaluation of a request on one template (history plus
        whatever differential worlds the property needs)."""
        return template.request(req)

    def extra_checks(self, tier, seed, pool, findings):
        """Additional deterministic sub-checks; returns (violations, evidence dict)."""
        return [], {}

    # ---- replay ------------------------------------------------------
    def replay(self, rp):
        req = dict(rp["request"])
        req["opts"] = {"want_log": False}
        t = driver.Template(rp["boot"])
        try:
            return self.run_one(t, req)
        finally:
            t.close()

    # ---- main flow ---------------------------------------------------
    def check(self, tier, seed, args, t0):
        findings = load_findings()
        self.params_cache = self.params(tier)
        if getattr(args, "outside_region", False):
            self.params_cache = dict(self.params_cache, outside_region=True)
        boots = self.boots(tier, seed)
        n = args.runs or (self.quick_runs if tier == "quick" else self.thorough_runs)
        tasks = self.check_tasks(tier, seed, n)
        if tasks is None:
            tasks = []
            for i in range(n):
                b = boots[i % len(boots)]
                rs = h64(seed, self.prop, i)
                tasks.append((b, self.request(rs, b)))
        pool = driver.Pool(workers=args.workers)
        # batches bound memory (results are slimmed after their differential oracles ran) and
        # let a wall-clock budget end a thorough exploration early without ever faking a pass:
        # whatever was explored is what the evidence reports
        budget = float(os.environ.get("VERIF_BUDGET_S") or (1e9 if tier == "quick" else 5400))
        results = []
        done = 0
        while done < len(tasks):
            bt = tasks[done:done + self.batch]
            br = pool.run(bt)
            harness = [(done + i, r["harness_error"]) for i, r in enumerate(br) if "harness_error" in r]
            if harness:
                for i, e in harness[:5]:
                    out("HARNESS-ERROR run=%d seed=%s %s" % (i, tasks[i][1].get("seed"), e.strip().splitlines()[-1] if e.strip() else e))
                self.evidence(tier, seed, t0, tasks[:done + len(bt)], results + br, {}, {}, {}, harness=len(harness))
                return 2
            self.post_process(bt, br, pool)
            # differential worlds (baselines, -O twins) may have failed too: never a silent pass
            late = [(done + i, r["harness_error"]) for i, r in enumerate(br) if "harness_error" in r]
            if late:
                for i, e in late[:5]:
                    out("HARNESS-ERROR run=%d seed=%s (differential world) %s" % (
                        i, tasks[i][1].get("seed"), str(e).strip().splitlines()[-1] if str(e).strip() else e))
                self.evidence(tier, seed, t0, tasks[:done + len(bt)], results + br, {}, {}, {}, harness=len(late))
                return 2
            results.extend(self.slim(r) for r in br)
            done += len(bt)
            if time.time() - t0 > budget and done < len(tasks):
                out("note: wall-clock budget of %.0fs reached after %d of %d planned runs" % (budget, done, len(tasks)))
                tasks = tasks[:done]
                break

        # determinism self-test: same seeds in templates with other PYTHONHASHSEED
        st = {"pairs": 0, "mismatches": 0}
        if not args.no_selftest:
            k = self.selftest_quick if tier == "quick" else self.selftest_thorough
            step = max(1, len(tasks) // k)
            idxs = list(range(0, len(tasks), step))[:k]
            t2 = []
            for j, i in enumerate(idxs):
                b = dict(tasks[i][0])
                b["hashseed"] = 1 + (j % 3) * 7919
                t2.append((b, tasks[i][1]))
            r2 = driver.Pool(workers=max(2, (args.workers or 16) // 2)).run(t2)
            for (i, a) in zip(idxs, r2):
                st["pairs"] += 1
                if a.get("digest") != results[i].get("digest"):
                    st["mismatches"] += 1
                    out("HARNESS-NONDETERMINISM property=%s run=%d seed=%s %s != %s" % (
                        self.prop, i, tasks[i][1].get("seed"), results[i].get("digest"), a.get("digest")))
            if st["mismatches"]:
                self.evidence(tier, seed, t0, tasks, results, {}, {}, st)
                return 3

        # violations
        by_sig = {}
        for i, r in enumerate(results):
            for v in self.violations_of(r):
                by_sig.setdefault(v["signature"], []).append((i, v))
        extra_v, extra_ev = self.extra_checks(tier, seed, pool, findings)
        known_seen = {}
        new = []
        for sig in sorted(by_sig):
            f = match_finding(findings, self.prop, sig)
            if f is not None:
                known_seen.setdefault(f["signature"], [f, 0])[1] += len(by_sig[sig])
            else:
                new.append(sig)
        for v in extra_v:
            f = match_finding(findings, self.prop, v["signature"])
            if f is not None:
                known_seen.setdefault(f["signature"], [f, 0])[1] += 1
        # exemplars of known findings are re-executed on every run
        for f in findings:
            if f.get("property") != self.prop or f.get("status") != "known" or not f.get("exemplar"):
                continue
            if f["signature"] in known_seen:
                continue
            try:
                res = self.replay({"boot": f["exemplar"]["boot"], "request": f["exemplar"]["request"]})
            except driver.HarnessError:
                continue
            if any(fnmatch_sig(v["signature"], f["signature"]) for v in self.violations_of(res)):
                known_seen[f["signature"]] = [f, 1]
        # exemplars of *fixed* findings are plain regression cases: suppress nothing
        regress = []
        for f in findings:
            if f.get("property") != self.prop or f.get("status") != "fixed" or not f.get("exemplar_file"):
                continue
            path = os.path.join(VERIF, f["exemplar_file"])
            try:
                with open(path) as fh:
                    rp = json.load(fh)
                res = self.replay(rp)
            except (OSError, ValueError, driver.HarnessError) as e:
                out("HARNESS-WARNING could not replay %s: %r" % (path, e))
                continue
            self.regressions_run = getattr(self, "regressions_run", 0) + 1
            if "harness_error" in res:
                out("HARNESS-WARNING replay of %s: %s" % (path, res["harness_error"].strip().splitlines()[-1]))
                continue
            hit = [v for v in self.violations_of(res)]
            if hit:
                regress.append((path, hit[0]))
        for sig, (f, cnt) in sorted(known_seen.items()):
            out("KNOWN-FINDING: property=%s %s [signature %s, seen %d times this run]" % (
                self.prop, f.get("what", ""), sig, cnt))

        rc = 0
        replays = []
        for sig in new:
            i, v = by_sig[sig][0]
            path = self.minimise_and_write(sig, tasks[i], results[i], v)
            replays.append(path)
            if getattr(self, "last_replay_reproduced", True) is False:
                # seen once, not reproducible from its own replay file in a fresh process: that is a
                # defect of the machinery (nondeterminism), never reported as a verdict on the library
                out("HARNESS-NONDETERMINISM property=%s signature=%s replay=%s did not reproduce" % (self.prop, sig, path))
                rc = max(rc, 3)
                continue
            out("VIOLATION property=%s replay=%s" % (self.prop, path))
            out("  signature=%s first_seed=%s occurrences=%d detail=%s" % (
                sig, tasks[i][1].get("seed"), len(by_sig[sig]), canon(v.get("detail"))[:400]))
            rc = max(rc, 1) if rc != 3 else 3
        for v in extra_v:
            if match_finding(findings, self.prop, v["signature"]) is None:
                path = self.write_extra_replay(v)
                out("VIOLATION property=%s replay=%s" % (self.prop, path))
                out("  signature=%s detail=%s" % (v["signature"], canon(v.get("detail"))[:400]))
                rc = 1
        for path, v in regress:
            out("VIOLATION property=%s replay=%s" % (self.prop, path))
            out("  regression of a fixed finding: signature=%s detail=%s" % (v["signature"], canon(v.get("detail"))[:400]))
            rc = 1
        nviol = len(regress) + len(new) + sum(1 for v in extra_v if match_finding(findings, self.prop, v["signature"]) is None)
        self.evidence(tier, seed, t0, tasks, results, by_sig, known_seen, st,
                      violations=nviol, extra=extra_ev, templates=pool.template_starts)
        return rc

    # ---- minimisation -------------------------------------------------
    def minimise_and_write(self, sig, task, result, v):
        boot, req = task
        t = driver.Template(boot)
        try:
            full = t.request(dict(req, want_ops=True))
            ops = full.get("ops") or req.get("ops")
            base = {k: x for k, x in req.items() if k not in ("seed",)}

            def test(cand):
                r = self.run_one(t, dict(base, ops=cand, seed=req.get("seed")))
                return any(x["signature"] == sig for x in self.violations_of(r))

            small, evals = ops, 0
            if ops and test(ops):
                small, evals = shrink.ddmin(ops, test)
                small, e2 = shrink.simplify_args(small, test)
                evals += e2
            final_req = dict(base, ops=small, seed=req.get("seed"))
            final = self.run_one(t, final_req)
        finally:
            t.close()
        rp = {
            "property": self.prop,
            "signature": sig,
            "boot": boot,
            "request": final_req,
            "seed": req.get("seed"),
            "original_ops": len(ops or []),
            "minimised_ops": len(small or []),
            "shrink_evaluations": evals,
            "expect": {"signature": sig, "digest": final.get("digest")},
            "violation": [x for x in self.violations_of(final) if x["signature"] == sig][:1],
            "source_hashes": source_hashes(),
        }
        d = os.path.join(REPLAY_DIR, self.prop)
        os.makedirs(d, exist_ok=True)
        path = os.path.join(d, safe_name(sig, req.get("seed") or 0))
        with open(path, "w") as f:
            json.dump(rp, f, indent=1)
        # the replay must reproduce in a fresh process
        fresh = self.replay(rp)
        self.last_replay_reproduced = any(x["signature"] == sig for x in self.violations_of(fresh))
        return path

    def write_extra_replay(self, v):
        req = v.get("request") or {}
        if req.get("what") == "c13_late_lookup" and v.get("boot"):
            # minimise the list of looked-up texts and of late imports
            def fails(rq):
                r = driver.one(v["boot"], rq)
                return any(x["signature"] == v["signature"] for x in r.get("violations") or [])

            texts = [(v.get("detail") or {}).get("text")]
            if not fails(dict(req, texts=texts)):
                texts, _ = shrink.ddmin(req["texts"], lambda c: fails(dict(req, texts=c)))
            late, _ = shrink.ddmin(req["late"], lambda c: fails(dict(req, texts=texts, late=c)))
            v = dict(v, request=dict(req, texts=texts, late=late))
        d = os.path.join(REPLAY_DIR, self.prop)
        os.makedirs(d, exist_ok=True)
        path = os.path.join(d, safe_name(v["signature"], None))
        with open(path, "w") as f:
            json.dump({"property": self.prop, "signature": v["signature"], "extra": True,
                       "boot": v.get("boot"), "request": v.get("request"),
                       "expect": {"signature": v["signature"]}, "violation": [v],
                       "source_hashes": source_hashes()}, f, indent=1)
        return path

    # ---- evidence -----------------------------------------------------
    def evidence(self, tier, seed, t0, tasks, results, by_sig, known_seen, st,
                 violations=0, extra=None, harness=0, templates=0):
        wall = time.time() - t0
        digests = set()
        counters, probes, faults = {}, {}, {}
        steps = 0
        states = set()
        for r in results:
            if not r or "harness_error" in r:
                continue
            states.update(r.get("state_hashes") or ())
            if self.nontrivial(r):
                digests.add(r.get("digest"))
            steps += r.get("n_ops", 0) + r.get("sched_steps", 0)
            for src, dst in ((r.get("counters"), counters), (r.get("probes"), probes),
                             (r.get("faults_fired"), faults)):
                for k, v in (src or {}).items():
                    dst[k] = dst.get(k, 0) + v
        samples = self.samples(tasks, results)
        boots = []
        for b, _ in tasks:
            k = canon({x: b[x] for x in b if x != "hashseed"})
            if k not in boots:
                boots.append(k)
        ev = {
            "property_id": self.prop,
            "tier": tier,
            "seed": seed,
            "level": self.level,
            "wall_s": round(wall, 2),
            "violations": violations,
            "coverage": {
                "evaluations": len(results),
                "distinct_nontrivial": len(digests),
                "rule": self.rule,
                "samples": samples,
                "runs_per_hour": int(len(results) / wall * 3600) if wall > 0 else 0,
                "simulated_steps": steps,
                "distinct_states_reached": len(states),
                "distinct_states_measure": "distinct unit normal forms (prefix, base-unit exponents) produced by operations across all runs (CRC32 of the canonical string); World T reports distinct_interleavings instead",
                "seeds": {"VERIF_SEED": seed, "run_seed_derivation": "sha256(VERIF_SEED, property, run index) >> 1", "runs": len(results)},
                "simulated_time": "not applicable: the library never reads a clock; steps (operations + scheduler decisions) are reported instead",
                "boot_configs": [json.loads(b) for b in boots],
                "templates_started": templates,
                "fault_fired": faults,
                "fault_configured": {"F2": counters.get("fault_configured:F2", 0),
                                     "note": "F2 = operations carrying an injection (it fires only if the call executes that many library lines); F4/F5/F3 fire whenever configured"},
                "outcomes_and_clause_counters": counters,
                "probes": probes,
                "determinism_selftest": st,
                "known_findings_seen": {k: v[1] for k, v in known_seen.items()},
                "violation_signatures": {k: len(v) for k, v in by_sig.items()},
                "harness_errors": harness,
                "components": self.components,
                "source_hashes": source_hashes(),
            },
            "assumptions": self.assumptions(),
        }
        gaps = [n for n in self.expected_reach if not (probes.get(n) or counters.get(n) or faults.get(n))]
        ev["coverage"]["reach_gaps"] = gaps
        if gaps:
            ev["assumptions"] = ev["assumptions"] + [
                "reach gap in this run: the following named conditions were never hit: " + ", ".join(gaps)]
        if extra:
            ev["coverage"].update(extra)
        write_evidence(self.prop, ev)
        out("%s tier=%s seed=%d runs=%d distinct=%d steps=%d wall=%.1fs violations=%d" % (
            self.prop, tier, seed, len(results), len(digests), steps, wall, violations))

    def samples(self, tasks, results):
        # re-run three runs with their operation lists written out
        outp = []
        idxs = [i for i, r in enumerate(results) if r and "harness_error" not in r and self.nontrivial(r)][:3]
        for i in idxs:
            b, req = tasks[i]
            try:
                r = driver.one(b, dict(req, want_ops=True))
                outp.append({"seed": req.get("seed"), "boot_imports": b.get("imports"),
                             "ops": r.get("ops"), "digest": r.get("digest")})
            except driver.HarnessError:
                pass
        return outp or [{"note": "no non-trivial run"}]

    def assumptions(self):
        return [
            "sampling, not enumeration: a clean batch is evidence, not proof",
            "pre-emption/injection points are source lines of measured/*.py; C code (dict, lru_cache) is atomic",
            "the reference model (sim/model.py) is textbook quantity calculus written from the property statements",
        ]


def safe_name(sig, seed):
    """A file name without shell metacharacters; a short hash keeps distinct signatures apart."""
    import hashlib
    import re

    stem = re.sub(r"[^A-Za-z0-9_.+-]", "_", sig)[:70]
    h = hashlib.sha256(sig.encode()).hexdigest()[:8]
    return "%s-%s%s.json" % (stem, h, "" if seed is None else "-%d" % seed)


def fnmatch_sig(sig, pattern):
    import fnmatch

    return fnmatch.fnmatchcase(sig, pattern)


class C01Plan(RunPlan):
    prop = "C01"
    engine = "A"
    expected_reach = ("F2", "F4", "F5", "C01.predicted.checked", "ok:as_ratio", "ok:u_root", "ok:load",
                      "ok:measure", "ok:level", "decode-across-dimension-define")
    rule = ("one evaluation = one simulated run: a seeded history of <=60 public operations "
            "(definitions, unit/quantity algebra, roots, as_ratio, str//-format/pretty/MathML, parse, "
            "convert, pickle/copy/JSON round trips, cache evictions, at most one injected asynchronous "
            "exception, late imports) in a fresh forked world of a seeded boot configuration; after every "
            "step every newly interned unit is checked against the integer-arithmetic product of its "
            "factors' dimensions and every unit-valued result against the model's history-free "
            "prediction. A run is non-trivial if it executed >=1 operation and evaluated >=1 clause; "
            "distinct = distinct event-log digests among non-trivial runs.")

    def params(self, tier):
        return {"late_imports": list(ALL_MODULES), "faults": True, "long": tier == "thorough"}


PLANS = {"C01": C01Plan}

try:
    from sim import plans_more

    PLANS.update(plans_more.PLANS)
except ImportError as e:  # pragma: no cover
    if "plans_more" not in str(e):
        raise
