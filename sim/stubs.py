"""Stand-in for IPython.lib.pretty.pretty when IPython is not installed: drives _repr_pretty_."""
import contextlib
import io


class _Printer:
    def __init__(self):
        self.out = io.StringIO()

    def text(self, s):
        self.out.write(str(s))

    def break_(self):
        self.out.write("\n")

    breakable = break_

    @contextlib.contextmanager
    def group(self, indent=0, open="", close=""):
        yield

    def pretty(self, obj):
        m = getattr(obj, "_repr_pretty_", None)
        if m is not None:
            m(self, False)
        else:
            self.out.write(repr(obj))


def pretty(obj):
    p = _Printer()
    p.pretty(obj)
    return p.out.getvalue()
