"""SimLock seam: while `measured` is being imported by a template, the lock
factories of `threading` are replaced so that every lock *created by library
code* is a SimLock.  Outside a simulation a SimLock is a plain real lock.  Inside
a simulated thread, acquire() never blocks the OS thread: a taken lock makes the
thread yield to the scheduler as "blocked" and retry when next scheduled, and the
scheduler does not schedule threads blocked on a lock somebody else holds.
"""
import sys
import threading

_REAL_LOCK = threading.Lock
_REAL_RLOCK = threading.RLock


class _Active:
    sched = None


ACTIVE = _Active()
CURRENT = threading.local()
CREATED = []


class SimLock:
    def __init__(self, reentrant):
        self.reentrant = reentrant
        self._real = _REAL_RLOCK() if reentrant else _REAL_LOCK()
        self._owner = None
        self._count = 0

    def _sim(self):
        if ACTIVE.sched is None:
            return None
        return getattr(CURRENT, "thread", None)

    def acquire(self, blocking=True, timeout=-1):
        t = self._sim()
        if t is None:
            return self._real.acquire(blocking, timeout)
        while True:
            if self._owner is None or (self.reentrant and self._owner is t):
                self._owner = t
                self._count += 1
                return True
            if self._owner is t:
                raise RuntimeError("simulated deadlock: non-reentrant lock re-acquired by its holder")
            if not blocking:
                return False
            ACTIVE.sched.lock_yield(t, self)

    def release(self):
        t = self._sim()
        if t is None:
            return self._real.release()
        if self._owner is not t:
            raise RuntimeError("release of a lock not held by this simulated thread")
        self._count -= 1
        if self._count == 0:
            self._owner = None

    def held_by_other(self, t):
        return self._owner is not None and self._owner is not t

    def locked(self):
        if ACTIVE.sched is not None:
            return self._owner is not None
        return self._real.locked() if hasattr(self._real, "locked") else False

    def __enter__(self):
        self.acquire()
        return self

    def __exit__(self, *exc):
        self.release()
        return False


def _factory(reentrant, real, prefix):
    def make(*a, **k):
        caller = sys._getframe(1).f_code.co_filename
        if caller.startswith(prefix):
            lock = SimLock(reentrant)
            CREATED.append(lock)
            return lock
        return real(*a, **k)
    return make


class patched:
    """Context manager: patch threading.Lock / threading.RLock for library code."""

    def __init__(self, prefix):
        self.prefix = prefix

    def __enter__(self):
        threading.Lock = _factory(False, _REAL_LOCK, self.prefix)
        threading.RLock = _factory(True, _REAL_RLOCK, self.prefix)

    def __exit__(self, *exc):
        threading.Lock = _REAL_LOCK
        threading.RLock = _REAL_RLOCK
        return False
