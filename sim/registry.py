"""Deep, address-free-comparable snapshots of every registry of the library.

Objects are identified by id() (strong references are kept by the registries
themselves, and the snapshot is only compared with another snapshot taken in the
same process), so equality of two snapshots means: same keys, bound to the same
objects, and every object reports the same names/symbols/attributes.
"""

MISSING = "<unset>"


def _attr(o, name):
    try:
        return getattr(o, name)
    except AttributeError:
        return MISSING


def _unit_state(u):
    f = _attr(u, "factors")
    if f is not MISSING:
        try:
            f = tuple(sorted((id(k), v) for k, v in f.items()))
        except Exception:
            f = "<unreadable>"
    return (
        id(_attr(u, "prefix")) if _attr(u, "prefix") is not MISSING else MISSING,
        f,
        id(_attr(u, "dimension")) if _attr(u, "dimension") is not MISSING else MISSING,
        _attr(u, "names"), _attr(u, "symbols"), _attr(u, "_initialized"),
    )


def _simple_state(o, attrs):
    out = []
    for a in attrs:
        v = _attr(o, a)
        if v is not MISSING and not isinstance(v, (str, int, float, bool, tuple, type(None))):
            v = id(v)
        out.append(v)
    return tuple(out)


def snapshot(L, conv):
    U, P, D = L.Unit, L.Prefix, L.Dimension
    s = {}
    s["Unit._by_name"] = {k: id(v) for k, v in U._by_name.items()}
    s["Unit._by_symbol"] = {k: id(v) for k, v in U._by_symbol.items()}
    s["Unit._known"] = frozenset(id(v) for v in U._known.values())
    s["Unit._known.keys"] = len(U._known)
    s["Unit._base"] = frozenset(id(v) for v in U._base)
    s["Unit.objects"] = {id(v): _unit_state(v) for v in U._known.values()}
    s["Prefix._by_name"] = {k: id(v) for k, v in P._by_name.items()}
    s["Prefix._by_symbol"] = {k: id(v) for k, v in P._by_symbol.items()}
    s["Prefix._known"] = {repr(k): id(v) for k, v in P._known.items()}
    s["Prefix.objects"] = {
        id(v): _simple_state(v, ("base", "exponent", "name", "symbol", "_initialized"))
        for v in P._known.values()
    }
    s["Dimension._by_name"] = {k: id(v) for k, v in D._by_name.items()}
    s["Dimension._known"] = {k: id(v) for k, v in D._known.items()}
    s["Dimension._fundamental"] = tuple(id(v) for v in D._fundamental)
    s["Dimension.objects"] = {
        id(v): _simple_state(v, ("exponents", "name", "symbol", "_initialized"))
        for v in D._known.values()
    }
    s["Logarithm._known"] = {repr(k[0]) + "/" + str(id(k[1])): id(v) for k, v in L.Logarithm._known.items()}
    s["Logarithm.objects"] = {
        id(v): _simple_state(v, ("base", "prefix", "name", "symbol", "_initialized"))
        for v in L.Logarithm._known.values()
    }
    s["LogarithmicUnit._known"] = frozenset(id(v) for v in L.LogarithmicUnit._known.values())
    s["LogarithmicUnit.objects"] = {
        id(v): _simple_state(v, ("logarithm", "name", "symbol", "_initialized"))
        for v in L.LogarithmicUnit._known.values()
    }
    s["conversions._ratios"] = {
        id(a): {id(b): repr(r) for b, r in d.items()} for a, d in conv._ratios.items() if d
    }
    s["conversions._offsets"] = {
        id(a): {id(b): repr(r) for b, r in d.items()} for a, d in conv._offsets.items() if d
    }
    return s


def diff(a, b):
    """Names of the registries that differ, sorted."""
    return sorted(k for k in a if a[k] != b.get(k))


def double_bindings(L):
    """Clause (b): every name/symbol an object reports must be bound to that very
    object; returns a list of (kind, name-or-symbol, description)."""
    bad = []
    U, P, D = L.Unit, L.Prefix, L.Dimension
    for u in list(U._known.values()):
        names = _attr(u, "names")
        symbols = _attr(u, "symbols")
        if names is MISSING or symbols is MISSING:
            continue
        for n in names:
            if U._by_name.get(n) is not u:
                bad.append(("unit-name", n))
        for x in symbols:
            if U._by_symbol.get(x) is not u:
                bad.append(("unit-symbol", x))
    for n, u in U._by_name.items():
        if n not in (_attr(u, "names") or ()):
            bad.append(("unit-name-unreported", n))
    for x, u in U._by_symbol.items():
        if x not in (_attr(u, "symbols") or ()):
            bad.append(("unit-symbol-unreported", x))
    for p in list(P._known.values()):
        n, x = _attr(p, "name"), _attr(p, "symbol")
        if n and n is not MISSING and P._by_name.get(n) is not p:
            bad.append(("prefix-name", n))
        if x and x is not MISSING and P._by_symbol.get(x) is not p:
            bad.append(("prefix-symbol", x))
    for n, p in P._by_name.items():
        if _attr(p, "name") != n:
            bad.append(("prefix-name-unreported", n))
    for x, p in P._by_symbol.items():
        if _attr(p, "symbol") != x:
            bad.append(("prefix-symbol-unreported", x))
    for d in list(D._known.values()):
        n = _attr(d, "name")
        if n and n is not MISSING and D._by_name.get(n) is not d:
            bad.append(("dimension-name", n))
    for n, d in D._by_name.items():
        if _attr(d, "name") != n:
            bad.append(("dimension-name-unreported", n))
    return sorted(set(bad))
