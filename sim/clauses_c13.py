"""C13 — str() output parses back; spellings are equivalent.  (Also provides the
rendering classes C15 uses to attribute JSON-of-quantity failures to C13.)"""
from fractions import Fraction

from sim import model as M
from sim.world_a import Clauses, mag_desc


def render_class(I, u):
    """Known weak spots of str(unit) on the pinned tree, decided structurally:
      magnitude-emitted   : str() puts a number in front of the unit (prefix cannot be
                            pushed onto the first factor), which Unit.parse rejects
      symbol-less-prefix  : the prefix to print has no registered symbol
    Returns None for a rendering outside these classes."""
    try:
        if u.symbol:
            return None
        from measured import formatting

        magnitude, terms = formatting._unit_to_magnitude_and_terms(u)
        if magnitude != 1:
            return "magnitude-emitted"
        for prefix, symbol, exponent in terms:
            if prefix.exponent != 0 and prefix.base != 0 and not prefix.symbol:
                return "symbol-less-prefix"
            if symbol is None:
                return "symbol-less-unit"
        for prefix, symbol, exponent in terms:
            if term_ambiguous(I.L, prefix, symbol):
                return "ambiguous-text"
    except Exception:
        return None
    return None


def resolve_like_library(L, text):
    """The library's documented resolution order for one symbol: exact symbol, then
    the shortest prefix split, then a registered name.  Returns (prefix, unit) or None."""
    U, P = L.Unit, L.Prefix
    if text in U._by_symbol:
        return (L.IdentityPrefix, U._by_symbol[text])
    for i in range(1, len(text)):
        p, u = P._by_symbol.get(text[:i]), U._by_symbol.get(text[i:])
        if p is not None and u is not None:
            return (p, u)
    if text in U._by_name:
        return (L.IdentityPrefix, U._by_name[text])
    return None


def term_ambiguous(L, prefix, symbol):
    """True when the printed term prefix-symbol + unit-symbol resolves (by the
    library's own rules) to something else than that prefix on that unit."""
    ps = prefix.symbol if (prefix.base != 0 and prefix.exponent != 0) else ""
    if ps is None or symbol is None:
        return False
    text = ps + symbol
    r = resolve_like_library(L, text)
    if r is None:
        return True
    p, u = r
    intended = L.Unit._by_symbol.get(symbol)
    if not ps:
        return u is not intended or p is not L.IdentityPrefix
    return not (p is prefix and u is intended)
