"""C13 — str() output parses back; spellings are equivalent.  (Also provides the
rendering classes C15 uses to attribute JSON-of-quantity failures to C13.)"""
from fractions import Fraction

from sim import model as M
from sim.world_a import Clauses, mag_desc


def render_class(I, u):
    """Known weak spots of str(unit) on the pinned tree, decided structurally:
      magnitude-emitted   : str() puts a number in front of the unit (prefix cannot be
                            pushed onto the first factor), which Unit.parse rejects
      symbol-less-prefix  : the prefix to print has no registered symbol
    Returns None for a rendering outside these classes."""
    try:
        if u.symbol:
            return None
        from measured import formatting

        try:
            magnitude, terms = formatting._unit_to_magnitude_and_terms(u)
        except Exception as e:
            # e.g. a prefix left with a float exponent like 2**-7e-15 after binary and decimal
            # prefixes cancelled: printing it hits superscript('e') -> KeyError
            if isinstance(getattr(u.prefix, "exponent", 0), float):
                return "str-raises:%s/float-exponent-prefix" % type(e).__name__
            return "str-raises:%s" % type(e).__name__
        if magnitude != 1:
            return "magnitude-emitted"
        for prefix, symbol, exponent in terms:
            if prefix.exponent != 0 and prefix.base != 0 and not prefix.symbol:
                return "symbol-less-prefix"
            if symbol is None:
                return "symbol-less-unit"
        for prefix, symbol, exponent in terms:
            if term_ambiguous(I.L, prefix, symbol):
                return "ambiguous-text:" + ambiguous_key(I.L, prefix, symbol)
    except Exception:
        return None
    return None


def printed_terms(I, u):
    """(prefix, symbol, exponent) of every term str(u) prints right now."""
    try:
        if u.symbol:
            return [(I.L.IdentityPrefix, u.symbol, 1)]
        from measured import formatting

        return list(formatting._unit_to_magnitude_and_terms(u)[1])
    except Exception:
        return []


def resolve_like_library(L, text):
    """The library's documented resolution order for one symbol: exact symbol, then
    the shortest prefix split, then a registered name.  Returns (prefix, unit) or None."""
    U, P = L.Unit, L.Prefix
    if text in U._by_symbol:
        return (L.IdentityPrefix, U._by_symbol[text])
    for i in range(1, len(text)):
        p, u = P._by_symbol.get(text[:i]), U._by_symbol.get(text[i:])
        if p is not None and u is not None:
            return (p, u)
    if text in U._by_name:
        return (L.IdentityPrefix, U._by_name[text])
    return None


def ambiguous_key(L, prefix, symbol):
    """Identity of an ambiguity: the printed term, or 'user-defined-collision' when one of
    the two readings is a unit defined by the simulated user (synthetic zz.. names)."""
    ps = prefix.symbol if (prefix.base != 0 and prefix.exponent != 0) else ""
    text = (ps or "") + symbol
    r = resolve_like_library(L, text)
    intended = L.Unit._by_symbol.get(symbol)
    for u in ((r[1] if r else None), intended):
        if u is not None and any(n.startswith("zz") for n in getattr(u, "names", ())):
            return "user-defined-collision"
    return text


def term_ambiguous(L, prefix, symbol):
    """True when the printed term prefix-symbol + unit-symbol resolves (by the
    library's own rules) to something else than that prefix on that unit."""
    ps = prefix.symbol if (prefix.base != 0 and prefix.exponent != 0) else ""
    if ps is None or symbol is None:
        return False
    text = ps + symbol
    r = resolve_like_library(L, text)
    if r is None:
        return True
    p, u = r
    intended = L.Unit._by_symbol.get(symbol)
    if not ps:
        return u is not intended or p is not L.IdentityPrefix
    return not (p is prefix and u is intended)


class C13Clauses(Clauses):
    """(1) Unit.parse(str(u)) denotes u (same normal form / same object; an equal named
    unit such as kg is accepted), Quantity.parse(str(q)) equals q, at any later point of
    the history; (2) all spellings of one term list parse to the very same object, and to
    the model's normal form when no term is ambiguous."""

    def __init__(self, interp):
        super().__init__(interp)
        self.rendered = {}   # text op id -> (kind, object, model nf, how)
        self.groups = {}     # spelling group -> first parsed object
        self.table = {}

    def sizes_equal(self, a, b):
        I = self.I
        sizes = getattr(I.boot, "shipped_sizes", None) or {}

        def size(nf):
            v = M.p_value(nf[0])
            if not isinstance(v, Fraction):
                v = Fraction(v)
            for t, e in nf[1]:
                if t not in sizes:
                    return None
                v *= Fraction(sizes[t]) ** e
            return v
        if I.model.dim_of(a) != I.model.dim_of(b):
            return False
        # only the factors in which the two differ need a size (a shared scale unit such as
        # celsius has none): size(a)/size(b) = size(a/b)
        q = size(M.u_div(a, b))
        if q is None:
            return False
        return abs(float(q) - 1.0) <= 1e-9

    def after_op(self, op, prepared, kind, value, mval, exc, info, rec):
        I = self.I
        name = op["op"]
        if rec.get("injected"):
            return None
        if name == "render" and exc is not None and op.get("how") == "str" and prepared:
            x = prepared[0][0]
            xu0 = x if op["kind"] == "unit" else getattr(x, "unit", x)
            cls = render_class(I, xu0) or "plain"
            I.count("C13.render.raised")
            I.violation("C13.render", "C13/str-raises/%s" % (cls if cls.startswith("str-raises") else
                                                              "str-raises:%s/%s" % (type(exc).__name__, cls)),
                        {"of": M.nf_str(prepared[0][1]) if prepared[0][1] else None, "error": type(exc).__name__})
            return {"C13.render": "VIOLATED"}
        if name == "render" and exc is None and op.get("how") == "str" and "id" in op:
            x = prepared[0][0]
            xu0 = x if op["kind"] == "unit" else x.unit
            self.rendered[op["id"]] = (op["kind"], x, prepared[0][1], render_class(I, xu0), printed_terms(I, xu0))
            return None
        if name != "parse":
            return None
        out = {}
        if "group" in op:
            return self.spelling(op, kind, value, exc, out)
        src = self.rendered.get(op.get("text", [None, None])[1]) if "text" in op else None
        if src is None:
            return None
        skind, x, mx, cls_at_render, terms = src
        if mx is None:
            return None
        xu = x if skind == "unit" else x.unit
        # the class of the text as it was rendered; else whether the terms that were PRINTED then are
        # ambiguous under the symbol table as it is now (the unit may have got a symbol of its own
        # since, and other units may have taken <prefix symbol><unit symbol> as theirs)
        cls = cls_at_render
        if not cls:
            for prefix, symbol, exponent in terms or ():
                if term_ambiguous(I.L, prefix, symbol):
                    cls = "ambiguous-text:" + ambiguous_key(I.L, prefix, symbol)
                    break
        cls = cls or "plain"
        I.count("C13.roundtrip.checked")
        if cls != "plain":
            I.count("C13.roundtrip.known-class:" + cls)
        if exc is not None:
            I.violation("C13.roundtrip", "C13/unparseable/%s" % cls,
                        {"text": info.get("_text") if info else None, "of": M.nf_str(mx),
                         "error": type(exc).__name__, "text_repr": repr(prepared[0][0])[:80]})
            return {"C13.roundtrip": "VIOLATED"}
        if skind == "unit":
            got = I.nf_of(value)
            ok = got == mx
            if ok and value is not x:
                I.violation("C13.roundtrip", "C13/same-product-different-object/%s" % cls,
                            {"text": prepared[0][0], "of": M.nf_str(mx)})
                return {"C13.roundtrip": "VIOLATED"}
            if not ok and got is not None and self.sizes_equal(got, mx):
                ok = True
                I.probe("parsed-to-equal-named-unit")
            if not ok:
                I.violation("C13.roundtrip", "C13/different/%s" % cls,
                            {"text": prepared[0][0], "of": M.nf_str(mx), "parsed": M.nf_str(got)})
                return {"C13.roundtrip": "VIOLATED"}
            return {"C13.roundtrip": "ok"}
        # quantity
        got = I.nf_of(value.unit)
        ok = False
        try:
            a = Fraction(x.magnitude) * Fraction(M.p_value(mx[0]))
            b = Fraction(value.magnitude) * Fraction(M.p_value(got[0]))
            if got[1] == mx[1]:
                ok = (a == b) or abs(float(a - b)) <= 1e-12 * abs(float(a))
            elif self.sizes_equal(got, mx):
                # an equal named unit (kg for kilo*gram): the magnitudes must agree as written
                a, b = Fraction(x.magnitude), Fraction(value.magnitude)
                ok = (a == b) or abs(float(a - b)) <= 1e-12 * abs(float(a))
        except (TypeError, ValueError, OverflowError, ZeroDivisionError):
            ok = True   # nan/inf magnitudes: out of scope
        if ok and type(value.magnitude) is not type(x.magnitude) and not (
                isinstance(x.magnitude, (int, float)) and isinstance(value.magnitude, (int, float))):
            ok = True   # Decimal magnitudes print like floats/ints: the type written is what parses
        if not ok:
            I.violation("C13.roundtrip", "C13/different-quantity/%s" % cls,
                        {"text": prepared[0][0], "of": [mag_desc(x.magnitude), M.nf_str(mx)],
                         "parsed": [mag_desc(value.magnitude), M.nf_str(got)]})
            return {"C13.roundtrip": "VIOLATED"}
        return {"C13.roundtrip": "ok"}

    def model_resolve(self, text):
        m = self.I.model
        if text in m.unit_symbols:
            return m.unit_symbols[text]
        for i in range(1, len(text)):
            p, u = m.prefix_symbols.get(text[:i]), m.unit_symbols.get(text[i:])
            if p is not None and u is not None:
                return M.u_with_prefix(p, u)
        return m.unit_names.get(text)

    def spelling(self, op, kind, value, exc, out):
        I = self.I
        g = op["group"]
        I.count("C13.spelling.checked")
        amb = bool(op.get("ambiguous"))
        # the symbol table may have grown since the text was generated (late imports,
        # definitions): ambiguity is a property of the table at parse time
        for text, intended in op.get("term_texts") or []:
            if self.model_resolve(text) != M.nf_from_json(intended):
                amb = True
                I.probe("spelling-became-ambiguous-after-generation")
        want = M.nf_from_json(op["nf"]) if op.get("nf") else None
        if exc is not None:
            if g in self.groups or not amb:
                I.violation("C13.spelling", "C13/spelling-rejected/%s" % op.get("variant", "?"),
                            {"text": op["literal"], "error": type(exc).__name__})
                return {"C13.spelling": "VIOLATED"}
            return None
        first = self.groups.setdefault(g, value)
        # binary and decimal prefixes among the terms (even if they cancel in the product):
        # the library folds them through float logarithms in evaluation order
        mixed = bool(op.get("mixed")) or (want is not None and len({b for b, _ in want[0]}) > 1)
        try:
            if isinstance(first.prefix.exponent, float) or isinstance(value.prefix.exponent, float):
                mixed = True
        except AttributeError:
            pass
        if mixed:
            # binary and decimal prefixes in one expression: the library folds them with float
            # logarithms in evaluation order, so only the numeric scale is comparable (1e-9)
            a, b = I.nf_of(first), I.nf_of(value)
            same = a is not None and b is not None and a[1] == b[1] and M.p_close(a[0], b[0])
            if same and not amb:
                same = b[1] == want[1] and M.p_close(b[0], want[0])
            if not same:
                I.violation("C13.spelling", "C13/spellings-differ/%s" % op.get("variant", "?"),
                            {"text": op["literal"], "parsed": M.nf_str(b), "first": M.nf_str(a), "mixed_base": True})
                return {"C13.spelling": "VIOLATED"}
            return {"C13.spelling": "ok"}
        if first is not value:
            I.violation("C13.spelling", "C13/spellings-differ/%s" % op.get("variant", "?"),
                        {"text": op["literal"], "parsed": M.nf_str(I.nf_of(value)),
                         "first": M.nf_str(I.nf_of(first))})
            return {"C13.spelling": "VIOLATED"}
        if want is not None and not amb:
            got = I.nf_of(value)
            if got != want and not (got is not None and self.sizes_equal(got, want)):
                I.violation("C13.spelling", "C13/spelling-denotes-other/%s" % op.get("variant", "?"),
                            {"text": op["literal"], "parsed": M.nf_str(got), "expected": M.nf_str(want)})
                return {"C13.spelling": "VIOLATED"}
        return {"C13.spelling": "ok"}
