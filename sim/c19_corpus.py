"""Corpus of definitional calls for C19's exhaustive crash-point enumeration (F2):
each entry point in each object state.  For every entry the check first counts the
line events n executed inside library code by the target call, then injects an
asynchronous exception at every ordinal 1..n (one fresh world per ordinal)."""


def corpus(snapshot):
    have = set(snapshot["units"])
    a = "meter" if "meter" in have else "one"
    b = "second" if "second" in have else "one"
    named = a
    C = []

    def add(name, setup, target):
        ops = []
        for i, o in enumerate(setup):
            o = dict(o)
            o["id"] = i
            ops.append(o)
        t = dict(target)
        t["id"] = len(ops)
        C.append({"name": name, "setup": ops, "target": t})

    add("Dimension.unit/fresh", [], {"op": "dim_unit", "dim": ["d", "length"], "name": "zzcua", "symbol": "zzcua"})
    add("Unit.define/fresh", [], {"op": "define_unit", "dim": ["d", "speed"], "name": "zzcub", "symbol": "zzcub"})
    add("Unit.derive/not-yet-interned",
        [{"op": "u_pow", "a": ["u", b], "n": 5}],
        {"op": "derive", "unit": ["r", 0], "name": "zzcuc", "symbol": "zzcuc"})
    add("Unit.derive/anonymous-compound",
        [{"op": "u_pow", "a": ["u", b], "n": -5}, {"op": "u_mul", "a": ["u", a], "b": ["r", 0]},
         {"op": "render", "x": ["r", 1], "kind": "unit", "how": "str"}],
        {"op": "derive", "unit": ["r", 1], "name": "zzcud", "symbol": "zzcud"})
    add("Unit.alias/named-unit-both", [], {"op": "alias", "unit": ["u", named], "name": "zzcue", "symbol": "zzcue"})
    add("Unit.alias/named-unit-symbol-only", [], {"op": "alias", "unit": ["u", named], "symbol": "zzcuf"})
    add("Unit.alias/named-unit-name-only", [], {"op": "alias", "unit": ["u", named], "name": "zzcug"})
    add("Unit.alias/anonymous-compound",
        [{"op": "u_pow", "a": ["u", a], "n": 7}],
        {"op": "alias", "unit": ["r", 0], "name": "zzcuh", "symbol": "zzcuh"})
    add("Prefix/fresh-named", [], {"op": "prefix_new", "base": 10, "exp": 57, "name": "zzcpa", "symbol": "zzcpa"})
    add("Prefix/anonymous-then-named",
        [{"op": "prefix_new", "base": 10, "exp": 59}],
        {"op": "prefix_new", "base": 10, "exp": 59, "name": "zzcpb", "symbol": "zzcpb"})
    add("Dimension.derive/fresh",
        [{"op": "d_pow", "a": ["d", "length"], "n": 7}],
        {"op": "dim_derive", "dim": ["r", 0], "name": "zzcda"})
    add("Dimension.derive/with-symbol",
        [{"op": "d_pow", "a": ["d", "time"], "n": -7}],
        {"op": "dim_derive", "dim": ["r", 0], "name": "zzcdb", "symbol": "ZZB"})
    add("Dimension.scale/fresh",
        [{"op": "q_new", "m": ["float", "273.15"], "u": ["u", a], "how": "mul"}],
        {"op": "scale", "dim": ["d", "length"], "zero": ["r", 0], "name": "zzcsa", "symbol": "zzcsa"})
    add("Dimension.define/fresh", [], {"op": "dim_define", "name": "zzcdd", "symbol": "ZZD"})
    # failing (F1) calls under F2 as well: the validation path itself is interrupted
    add("Unit.alias/dup-symbol", [], {"op": "alias", "unit": ["u", named], "name": "zzcui", "symbol": "1", "fault": "dup_symbol"})
    add("Dimension.unit/space", [], {"op": "dim_unit", "dim": ["d", "length"], "name": "zzcuj", "symbol": "zz cuj", "fault": "space"})
    return C
