"""Boot of a template: import the real `measured` under a boot configuration,
optionally under the *boot tracer* that logs every declaration executed during
import (with the declaring module and line), then snapshot the registries.

Boot configuration (JSON):
  imports : ordered list of measured.<module> names to import ([] = core only)
  trace   : bool, install the boot tracer
  (interpreter flag -O and PYTHONHASHSEED are launch parameters set by the driver)
"""
import importlib
import os
import sys

from sim.util import REPO_SRC

ALL_MODULES = [
    "acoustics", "apocrypha", "astronomical", "avoirdupois", "computing",
    "electronics", "energy", "eu", "fff", "iec", "iso", "metric", "music",
    "natural", "si", "troy", "us",
]

MEASURED_DIR = os.path.join(REPO_SRC, "measured") + os.sep

# (filename suffix, function qualname) of declaration entry points
DECL_FUNCS = {
    ("__init__.py", "Unit.define"), ("__init__.py", "Unit.derive"),
    ("__init__.py", "Unit.alias"), ("__init__.py", "Unit.equals"),
    ("__init__.py", "Dimension.define"), ("__init__.py", "Dimension.derive"),
    ("__init__.py", "Dimension.scale"),
    ("__init__.py", "Prefix.__init__"), ("__init__.py", "Logarithm.__init__"),
    ("__init__.py", "Logarithm.alias"), ("__init__.py", "LogarithmicUnit.alias"),
    ("conversions.py", "equate"), ("conversions.py", "translate"),
}


def unit_desc(u):
    """Structural description of a library Unit without ids/addresses."""
    try:
        factors = sorted(
            [(f.names[0] if f.names else "?", int(e)) for f, e in u.factors.items()]
        )
        p = u.prefix
        return {
            "prefix": [p.base, _num(p.exponent)],
            "factors": factors,
            "dim": list(u.dimension.exponents),
            "names": list(u.names),
            "symbols": list(u.symbols),
            "base": len(u.factors) == 1 and next(iter(u.factors)) is u,
        }
    except AttributeError:
        return {"half_built": True}


def _num(x):
    if isinstance(x, bool):
        return int(x)
    if isinstance(x, int):
        return x
    return repr(x)


def qty_desc(q):
    return {"m": repr(q.magnitude), "mt": type(q.magnitude).__name__, "u": unit_desc(q.unit)}


class BootTracer:
    def __init__(self):
        self.events = []

    def __call__(self, frame, event, arg):
        if event != "call":
            return None
        code = frame.f_code
        fn = code.co_filename
        if not fn.startswith(MEASURED_DIR):
            return None
        key = (os.path.basename(fn), code.co_qualname)
        if key not in DECL_FUNCS:
            return None
        try:
            self.events.append(self.describe(key, frame))
        except Exception as e:  # never let the tracer disturb the import
            self.events.append({"f": key[1], "tracer_error": repr(e)})
        return None

    def describe(self, key, frame):
        loc = frame.f_locals
        # the declaring site: first frame up-stack that is not __init__/conversions
        caller = frame.f_back
        while caller is not None:
            cfn = caller.f_code.co_filename
            if cfn.startswith(MEASURED_DIR) and os.path.basename(cfn) in (
                "__init__.py", "conversions.py"
            ) and caller.f_code.co_name != "<module>":
                caller = caller.f_back
                continue
            break
        site = None
        if caller is not None:
            cfn = caller.f_code.co_filename
            site = [
                cfn[len(MEASURED_DIR):] if cfn.startswith(MEASURED_DIR) else os.path.basename(cfn),
                caller.f_lineno,
            ]
        ev = {"f": key[1], "site": site}
        q = key[1]
        if q == "equate":
            ev["a"] = qty_desc(loc["a"])
            ev["b"] = qty_desc(loc["b"])
        elif q == "translate":
            ev["scale"] = unit_desc(loc["scale"])
            ev["zero"] = qty_desc(loc["zero"])
        elif q == "Unit.define":
            ev["dim"] = list(loc["dimension"].exponents)
            ev["name"] = loc["name"]
            ev["symbol"] = loc["symbol"]
        elif q == "Unit.derive":
            ev["unit"] = unit_desc(loc["unit"])
            ev["name"] = loc["name"]
            ev["symbol"] = loc["symbol"]
        elif q == "Unit.alias":
            ev["unit"] = unit_desc(loc["self"])
            ev["name"] = loc["name"]
            ev["symbol"] = loc["symbol"]
        elif q == "Unit.equals":
            ev["unit"] = unit_desc(loc["self"])
            ev["other"] = qty_desc(loc["other"])
        elif q == "Dimension.define":
            ev["name"] = loc["name"]
            ev["symbol"] = loc["symbol"]
        elif q == "Dimension.derive":
            ev["dim"] = list(loc["dimension"].exponents)
            ev["name"] = loc["name"]
            ev["symbol"] = loc["symbol"]
        elif q == "Dimension.scale":
            ev["dim"] = list(loc["self"].exponents)
            ev["name"] = loc["name"]
            ev["symbol"] = loc["symbol"]
            ev["zero"] = qty_desc(loc["zero"])
        elif q == "Prefix.__init__":
            s = loc["self"]
            ev["base"] = loc["base"]
            ev["exponent"] = _num(loc["exponent"])
            ev["name"] = loc["name"]
            ev["symbol"] = loc["symbol"]
            ev["already"] = bool(s._initialized)
        elif q == "Logarithm.__init__":
            ev["base"] = repr(loc["base"])
            ev["name"] = loc["name"]
            ev["symbol"] = loc["symbol"]
            ev["already"] = bool(loc["self"]._initialized)
        elif q in ("Logarithm.alias", "LogarithmicUnit.alias"):
            ev["name"] = loc["name"]
            ev["symbol"] = loc["symbol"]
        return ev


class Boot:
    def __init__(self, cfg, events):
        self.cfg = cfg
        self.events = events
        self.snapshot = None

    def take_snapshot(self):
        import measured

        snap = {}
        snap["fundamental"] = [d.name for d in measured.Dimension._fundamental]
        snap["dims"] = {
            n: list(d.exponents) for n, d in measured.Dimension._by_name.items()
        }
        snap["prefixes"] = {
            n: [p.base, _num(p.exponent), p.symbol, p.name]
            for n, p in measured.Prefix._by_name.items()
        }
        snap["prefix_symbols"] = {
            s: [p.base, _num(p.exponent)] for s, p in measured.Prefix._by_symbol.items()
        }
        snap["units"] = {n: unit_desc(u) for n, u in measured.Unit._by_name.items()}
        snap["unit_symbols"] = {
            s: (u.names[0] if u.names else None)
            for s, u in measured.Unit._by_symbol.items()
        }
        snap["n_known_units"] = len(measured.Unit._known)
        snap["optimized"] = not __debug__
        snap["imports"] = list(self.cfg.get("imports", []))
        self.snapshot = snap

    def summary(self):
        return {
            "imports": self.cfg.get("imports", []),
            "optimized": not __debug__,
            "hashseed": os.environ.get("PYTHONHASHSEED"),
            "decl_events": len(self.events) if self.events is not None else None,
            "units": len(self.snapshot["units"]),
            "library_locks": len(__import__("sim.simlock").simlock.CREATED),
        }

    def full(self):
        return {"snapshot": self.snapshot, "events": self.events, "cfg": self.cfg}


def boot(cfg):
    if REPO_SRC not in sys.path:
        sys.path.insert(0, REPO_SRC)
    tracer = None
    if cfg.get("trace"):
        tracer = BootTracer()
        sys.settrace(tracer)
    from sim import simlock

    try:
        with simlock.patched(MEASURED_DIR):
            import measured  # noqa: F401

            for m in cfg.get("imports", []):
                importlib.import_module("measured." + m)
    finally:
        if tracer is not None:
            sys.settrace(None)
    real = os.path.realpath(sys.modules["measured"].__file__)
    if not real.startswith(os.path.realpath(REPO_SRC)):
        raise RuntimeError("measured imported from %s, not from %s" % (real, REPO_SRC))
    b = Boot(cfg, tracer.events if tracer else None)
    b.take_snapshot()
    b.shipped_sizes = None
    if tracer is not None:
        # hidden-truth sizes of the shipped units, solved from the observed declaration
        # history (sim.c09); used as the oracle for conversions between shipped units
        from sim import c09

        solved = c09.solve(tracer.events)
        b.shipped_sizes = dict(solved["sizes"])
        b.snapshot["compound_declared"] = sorted(c09.compound_declared(solved))
        b.snapshot["shipped_sized"] = sorted(b.shipped_sizes)
        b.snapshot["shipped_sizes"] = {t: str(v) for t, v in b.shipped_sizes.items()}
        scales = set()
        for ev in tracer.events:
            if ev.get("f") == "translate":
                scales.update(ev["scale"].get("names", []))
                scales.update(ev["zero"]["u"].get("names", []) if ev["zero"]["u"].get("base") else [])
        b.snapshot["scale_units"] = sorted(scales)
    return b
