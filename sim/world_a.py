"""World A — algebra / registry histories (C01, C02, C13, C15, C19).

Runs inside a forked child of a template.  Executes an operation list against the
real library, evaluates the reference model alongside (sim.model), evaluates the
clauses of the property the run is for after every step, and returns the event
log digest, violations and coverage counters.

Every reference to an earlier value is ["r", op id]; if that op is absent from
the list (removed by the shrinker) or did not produce a value, the operation is
skipped and itself produces nothing — so any sub-list of a run is a
well-formed run.
"""
import contextlib
import copy
import importlib
import io
import itertools
import json
import pickle
import sys
from decimal import Decimal
from fractions import Fraction

from sim import model as M
from sim.boot import MEASURED_DIR
from sim.faults import Injector, evict_caches
from sim.util import canon, digest


class Absent:
    def __repr__(self):
        return "ABSENT"


ABSENT = Absent()


def mag_from(spec):
    kind, text = spec
    if kind == "int":
        return int(text)
    if kind == "float":
        return float(text)
    if kind == "dec":
        return Decimal(text)
    raise ValueError(kind)


def mag_desc(m):
    return [type(m).__name__, repr(m)]


class Interp:
    def __init__(self, boot, prop, opts=None):
        import measured
        from measured import conversions

        self.L = measured
        self.conv = conversions
        self.boot = boot
        self.prop = prop
        self.opts = opts or {}
        self.model = M.ModelWorld(boot.snapshot)
        self.vals = {}    # op id -> (kind, library value)
        self.mvals = {}   # op id -> model value (nf for unit/qty, dim, prefix) or None
        self.log = []
        self.violations = []
        self.counters = {}
        self.probes = {}
        self.faults_fired = {}
        self.step = 0
        # identity tokens of base units (strong refs keep ids unique)
        self.tok = {}
        self._keep = []
        for name, u in list(measured.Unit._by_name.items()):
            self._register_token(u)
        self.known_scanned = len(measured.Unit._known)
        self.restarted = 0
        self.carry = None
        self.ok_ids = set()
        self.stale_epoch = False
        self.states = set()     # distinct unit normal forms produced (a measure of states reached)
        self.creators = {}      # id(unit) -> qualname of the library function that interned it
        self._inj = None
        self._unit_new_code = measured.Unit.__new__.__code__
        self._known_len_at_call = 0
        self.clauses = self.make_clauses()

    def make_clauses(self):
        return make_clauses(self.prop, self)

    # ------------------------------------------------------------ tracing
    # One global trace function serves both the creator log (which library
    # function interned each new unit; needed for root-cause signatures) and
    # the F2 injector.
    def _gtrace(self, frame, event, arg):
        code = frame.f_code
        if code is self._unit_new_code:
            self._known_len_at_call = len(self.L.Unit._known)
            return self._ltrace_new
        inj = self._inj
        if inj is not None and code.co_filename.startswith(MEASURED_DIR):
            return inj._local
        return None

    def _ltrace_new(self, frame, event, arg):
        if event == "return":
            if arg is not None and len(self.L.Unit._known) > self._known_len_at_call:
                caller = frame.f_back
                q = "<non-library>"
                if caller is not None and caller.f_code.co_filename.startswith(MEASURED_DIR):
                    q = caller.f_code.co_qualname
                self.creators[id(arg)] = q
            return None
        inj = self._inj
        if inj is not None:
            inj._local(frame, event, arg)
        return self._ltrace_new

    # ------------------------------------------------------------ helpers
    def _register_token(self, u):
        try:
            f = u.factors
            if len(f) == 1 and next(iter(f)) is u and id(u) not in self.tok:
                self.tok[id(u)] = u.names[0]
                self._keep.append(u)
        except AttributeError:
            pass

    def count(self, key, n=1):
        self.counters[key] = self.counters.get(key, 0) + n

    def probe(self, key, n=1):
        self.probes[key] = self.probes.get(key, 0) + n

    def nf_of(self, u):
        """Normal form of a library unit; None if it cannot be described."""
        try:
            p = u.prefix
            e = p.exponent
            if isinstance(e, float):
                pe = Fraction(e)
            else:
                pe = Fraction(e)
            pm = M.p_norm([(p.base, pe)])
            items = []
            for f, x in u.factors.items():
                if f is self.L.One:
                    continue
                t = self.tok.get(id(f))
                if t is None:
                    return None
                items.append((t, int(x)))
            return (pm, M.f_norm(items))
        except AttributeError:
            return None

    def dim_of_unit_stored(self, u):
        return M.d_norm(u.dimension.exponents)

    def violation(self, clause, signature, detail):
        self.violations.append(
            {"clause": clause, "signature": signature, "step": self.step, "detail": detail}
        )

    # --------------------------------------------------------- resolution
    def resolve(self, ref, kind):
        """Returns (library value, model value) or (ABSENT, None)."""
        t = ref[0]
        L = self.L
        try:
            if t == "r":
                ent = self.vals.get(ref[1])
                if ent is None or ent[1] is ABSENT or ent[0] != kind:
                    return ABSENT, None
                if len(ref) > 2:
                    return ent[1][ref[2]], self.mvals.get(ref[1])[ref[2]]
                return ent[1], self.mvals.get(ref[1])
            if t == "u" and kind == "unit":
                return L.Unit._by_name[ref[1]], self.model.unit_names.get(ref[1])
            if t == "p" and kind == "prefix":
                if ref[1] == "":
                    return L.IdentityPrefix, ()
                return L.Prefix._by_name[ref[1]], self.model.prefix_names.get(ref[1])
            if t == "d" and kind == "dim":
                return L.Dimension._by_name[ref[1]], self.model.dims.get(ref[1])
        except KeyError:
            return ABSENT, None
        return ABSENT, None

    # ------------------------------------------------------------ running
    RESTART_KEEP = {"define_unit", "dim_unit", "derive", "alias", "dim_derive", "dim_define", "scale",
                    "declare", "import"}

    def continuation_ops(self, ops, k):
        """What the next world executes after a restart at ops[k]: the definitions of
        this world (with whatever they need to build their operands), then the rest."""
        by_id = {o.get("id"): o for o in ops[:k]}
        keep = set()
        stack = []

        def refs(o):
            out = []
            for v in o.values():
                if isinstance(v, list) and len(v) >= 2 and v[0] == "r" and isinstance(v[1], int):
                    out.append(v[1])
            return out
        for o in ops[:k]:
            if o["op"] in self.RESTART_KEEP or (o["op"] == "prefix_new" and (o.get("name") or o.get("symbol"))):
                # exactly the definitions that took effect in this world (a definition that
                # failed, by validation or by an injected exception, defined nothing)
                if o.get("id") not in self.ok_ids:
                    continue
                keep.add(o.get("id"))
                stack.extend(refs(o))
        while stack:
            i = stack.pop()
            if i in keep or i not in by_id:
                continue
            if by_id[i]["op"] in ("dump", "restart"):
                continue      # blobs are carried over as bytes; a load can be repeated from them
            keep.add(i)
            if by_id[i]["op"] != "load":
                stack.extend(refs(by_id[i]))
        out = []
        for o in ops[:k]:
            if o.get("id") in keep:
                o = {a: b for a, b in o.items() if a != "inject"}
                out.append(o)
        return out + list(ops[k + 1:])

    def run(self, ops):
        cont = None
        try:
            for k, op in enumerate(ops):
                if op["op"] == "restart":
                    self.faults_fired["F5"] = self.faults_fired.get("F5", 0) + 1
                    self.log.append({"i": op.get("id"), "op": "restart"})
                    cont = self.continuation_ops(ops, k)
                    break
                self.step += 1
                self.exec_op(op)
        finally:
            sys.settrace(None)
        self.step += 1
        for c in self.clauses:
            c.at_end()
        res = self.result()
        if cont is not None:
            blobs = {str(i): v[1] for i, v in self.vals.items() if v[0] == "blob" and v[1] is not ABSENT}
            res["continue_ops"] = cont
            res["carry"] = {"blobs": blobs, "digest": res["digest"], "n_ops": res["n_ops"],
                            "violations": res["violations"], "counters": res["counters"],
                            "probes": res["probes"], "faults_fired": res["faults_fired"],
                            "restarts": self.restarted + 1, "stale_epoch": self.stale_epoch}
        return res

    def adopt(self, carry):
        """State that survived the restart: serialized blobs only (plus the accumulated
        verdicts of the previous world, for reporting)."""
        self.restarted = carry.get("restarts", 1)
        self.stale_epoch = False   # a fresh process: nothing of the old dimension objects survives
        for i, blob in (carry.get("blobs") or {}).items():
            self.vals[int(i)] = ("blob", blob)
            self.mvals[int(i)] = None
        self.carry = carry

    def result(self):
        lines = [canon(l) for l in self.log]
        return {
            "digest": digest(lines),
            "n_ops": len(self.log),
            "violations": self.violations,
            "counters": self.counters,
            "probes": self.probes,
            "faults_fired": self.faults_fired,
            "log": self.log if self.opts.get("want_log") else None,
            "state_hashes": sorted({__import__("zlib").crc32(x.encode()) for x in self.states}),
        }

    def exec_op(self, op):
        name = op["op"]
        fn = getattr(self, "op_" + name, None)
        rec = {"i": op.get("id"), "op": name}
        if fn is None:
            rec["out"] = "unknown-op"
            self.log.append(rec)
            return
        inj = None
        out_kind, value, mval, info = None, ABSENT, None, {}
        try:
            prepared = fn(op, prepare=True)
        except Exception as e:  # preparing never touches the library's mutators
            prepared = None
            rec["prep_error"] = type(e).__name__
        if prepared is None:
            rec["out"] = "skip"
            self.count("skip")
            if "id" in op:
                self.vals[op["id"]] = (None, ABSENT)
            self.log.append(rec)
            return
        for c in self.clauses:
            c.before_op(op, prepared)
        if "inject" in op:
            inj = Injector(op["inject"]["ordinal"], op["inject"].get("exc", "KeyboardInterrupt"),
                           opcodes=op["inject"].get("granularity") == "opcode")
            self.count("fault_configured:F2")
        exc = None
        self._inj = inj
        if inj is not None and inj.opcodes:
            # CPython 3.12 instruments for per-instruction events only at a sys.settrace()
            # call made after some frame has asked for them
            sys._getframe().f_trace_opcodes = True
        try:
            sys.settrace(self._gtrace)
            try:
                out_kind, value, mval, info = fn(op, prepare=False, prepared=prepared)
            finally:
                sys.settrace(None)
                self._inj = None
        except BaseException as e:  # includes injected KeyboardInterrupt/MemoryError
            exc = e
            value = ABSENT
        if inj:
            rec["inject"] = {"ordinal": inj.ordinal, "fired": inj.fired, "lines": inj.n}
            if inj.fired:
                self.faults_fired["F2"] = self.faults_fired.get("F2", 0) + 1
        if exc is not None:
            rec["out"] = "raise:" + type(exc).__name__
            self.count("raise:" + type(exc).__name__)
            rec["injected"] = bool(inj and inj.fired and isinstance(exc, inj.exc_type))
        else:
            rec["out"] = "ok"
            self.count("ok:" + name)
            if "id" in op:
                self.ok_ids.add(op["id"])
        if "id" in op:
            self.vals[op["id"]] = (out_kind, value)
            self.mvals[op["id"]] = mval
        if exc is None:
            rec.update(self.describe(out_kind, value, mval))
            nf_ = rec.get("nf")
            if nf_:
                for x in (nf_ if isinstance(nf_, list) else [nf_]):
                    if x:
                        self.states.add(x)
            for k, v in info.items():
                if not k.startswith("_"):
                    rec[k] = v
        cl = {}
        for c in self.clauses:
            r = c.after_op(op, prepared, out_kind, value, mval, exc, info, rec)
            if r:
                cl.update(r)
        if cl:
            rec["clauses"] = cl
        self.log.append(rec)

    def describe(self, kind, value, mval):
        d = {}
        try:
            if kind == "unit":
                d["nf"] = M.nf_str(self.nf_of(value))
                d["dim"] = list(self.dim_of_unit_stored(value))
            elif kind == "qty":
                d["nf"] = M.nf_str(self.nf_of(value.unit))
                d["m"] = mag_desc(value.magnitude)
            elif kind == "dim":
                d["dim"] = list(M.d_norm(value.exponents))
            elif kind == "prefix":
                d["p"] = [value.base, repr(value.exponent)]
            elif kind == "text":
                d["len"] = None  # texts depend on creation order: not part of the digest
            elif kind == "pair":
                d["nf"] = [M.nf_str(self.nf_of(v)) for v in value]
            elif kind == "bool":
                d["b"] = bool(value)
        except Exception as e:
            d["describe_error"] = type(e).__name__
        return d

    # ------------------------------------------------------------------ ops
    # Each op_<name>(op, prepare=True) resolves arguments (returns None to skip);
    # op_<name>(op, prepare=False, prepared=...) performs the library call and
    # returns (kind, value, model value, info).

    def _args(self, op, *specs):
        out = []
        for key, kind in specs:
            v, m = self.resolve(op[key], kind)
            if v is ABSENT:
                return None
            out.append((v, m))
        return out

    def op_define_unit(self, op, prepare, prepared=None):
        if prepare:
            return self._args(op, ("dim", "dim"))
        (d, md), = prepared
        u = self.L.Unit.define(d, op["name"], op["symbol"])
        self._register_token(u)
        nf = self.model.define_unit(op["name"], op["symbol"], md) if md is not None else None
        return "unit", u, nf, {}

    def op_derive(self, op, prepare, prepared=None):
        if prepare:
            return self._args(op, ("unit", "unit"))
        (u, mu), = prepared
        r = self.L.Unit.derive(u, op["name"], op["symbol"])
        if mu is not None:
            self.model.name_unit(mu, op["name"], op["symbol"])
        return "unit", r, mu, {}

    def op_alias(self, op, prepare, prepared=None):
        if prepare:
            return self._args(op, ("unit", "unit"))
        (u, mu), = prepared
        u.alias(name=op.get("name"), symbol=op.get("symbol"))
        if mu is not None:
            self.model.name_unit(mu, op.get("name"), op.get("symbol"))
        return "unit", u, mu, {}

    def _binop(self, op, prepare, prepared, kind, f, mf):
        if prepare:
            return self._args(op, ("a", kind), ("b", kind))
        (a, ma), (b, mb) = prepared
        r = f(a, b)
        m = mf(ma, mb) if (ma is not None and mb is not None) else None
        return kind, r, m, {}

    def op_u_mul(self, op, prepare, prepared=None):
        return self._binop(op, prepare, prepared, "unit", lambda a, b: a * b, M.u_mul)

    def op_u_div(self, op, prepare, prepared=None):
        return self._binop(op, prepare, prepared, "unit", lambda a, b: a / b, M.u_div)

    def op_u_pow(self, op, prepare, prepared=None):
        if prepare:
            return self._args(op, ("a", "unit"))
        (a, ma), = prepared
        r = a ** op["n"]
        return "unit", r, (M.u_pow(ma, op["n"]) if ma is not None else None), {}

    def op_pow_float(self, op, prepare, prepared=None):
        """F1: an exponent of the wrong type (7.0 for 7).  Whether it is refused or accepted
        is not judged; what is judged is every later integer expression."""
        if prepare:
            return self._args(op, ("a", op.get("kind", "unit")))
        (a, ma), = prepared
        try:
            a ** float(op["n"])
            refused = False
        except TypeError:
            refused = True
        self.faults_fired["F1"] = self.faults_fired.get("F1", 0) + 1
        return None, ABSENT, None, {"refused": refused}

    def op_u_root(self, op, prepare, prepared=None):
        if prepare:
            return self._args(op, ("a", "unit"))
        (a, ma), = prepared
        r = a.root(op["n"])
        return "unit", r, (M.u_root(ma, op["n"]) if ma is not None else None), {}

    def op_p_mul_u(self, op, prepare, prepared=None):
        if prepare:
            return self._args(op, ("p", "prefix"), ("u", "unit"))
        (p, mp), (u, mu) = prepared
        r = p * u if not op.get("right") else u * p
        m = M.u_with_prefix(mp, mu) if (mp is not None and mu is not None) else None
        return "unit", r, m, {}

    def op_as_ratio(self, op, prepare, prepared=None):
        if prepare:
            return self._args(op, ("u", "unit"))
        (u, mu), = prepared
        n, d = u.as_ratio()
        m = M.u_as_ratio(mu) if mu is not None else (None, None)
        return "pair", (n, d), m, {}

    def op_pick(self, op, prepare, prepared=None):
        """Select one half of an as_ratio pair as a unit value."""
        if prepare:
            ent = self.vals.get(op["pair"][1])
            if ent is None or ent[0] != "pair" or ent[1] is ABSENT:
                return None
            return [(ent[1], self.mvals.get(op["pair"][1]))]
        (pair, mp), = prepared
        k = op["which"]
        return "unit", pair[k], (mp[k] if mp else None), {}

    def op_quantify(self, op, prepare, prepared=None):
        if prepare:
            return self._args(op, ("u", "unit"))
        (u, mu), = prepared
        q = u.quantify()
        return "qty", q, (M.u_unprefixed(mu) if mu is not None else None), {}

    def op_q_new(self, op, prepare, prepared=None):
        if prepare:
            return self._args(op, ("u", "unit"))
        (u, mu), = prepared
        how = op.get("how", "mul")
        m = mag_from(op["m"])
        if how == "mul":
            q = m * u
        elif how == "rmul":
            q = u * m
        else:
            q = self.L.Quantity(m, u)
        return "qty", q, mu, {}

    def op_q_bin(self, op, prepare, prepared=None):
        if prepare:
            return self._args(op, ("a", "qty"), ("b", "qty"))
        (a, ma), (b, mb) = prepared
        f = op["f"]
        both = ma is not None and mb is not None
        if f == "*":
            return "qty", a * b, (M.u_mul(ma, mb) if both else None), {}
        if f == "/":
            return "qty", a / b, (M.u_div(ma, mb) if both else None), {}
        if f == "+":
            return "qty", a + b, ma, {}
        if f == "-":
            return "qty", a - b, ma, {}
        raise ValueError(f)

    def op_q_unit(self, op, prepare, prepared=None):
        """quantity * unit or quantity / unit"""
        if prepare:
            return self._args(op, ("a", "qty"), ("u", "unit"))
        (a, ma), (u, mu) = prepared
        both = ma is not None and mu is not None
        if op["f"] == "*":
            return "qty", a * u, (M.u_mul(ma, mu) if both else None), {}
        return "qty", a / u, (M.u_div(ma, mu) if both else None), {}

    def op_q_pow(self, op, prepare, prepared=None):
        if prepare:
            return self._args(op, ("a", "qty"))
        (a, ma), = prepared
        return "qty", a ** op["n"], (M.u_pow(ma, op["n"]) if ma is not None else None), {}

    def op_q_root(self, op, prepare, prepared=None):
        if prepare:
            return self._args(op, ("a", "qty"))
        (a, ma), = prepared
        return "qty", a.root(op["n"]), (M.u_root(ma, op["n"]) if ma is not None else None), {}

    def op_unprefixed(self, op, prepare, prepared=None):
        if prepare:
            return self._args(op, ("q", "qty"))
        (q, mq), = prepared
        return "qty", q.unprefixed(), (M.u_unprefixed(mq) if mq is not None else None), {}

    def op_q_unit_of(self, op, prepare, prepared=None):
        if prepare:
            return self._args(op, ("q", "qty"))
        (q, mq), = prepared
        return "unit", q.unit, mq, {}

    def op_convert(self, op, prepare, prepared=None):
        if prepare:
            return self._args(op, ("q", "qty"), ("u", "unit"))
        (q, mq), (u, mu) = prepared
        return "qty", q.in_unit(u), mu, {}

    def op_cmp(self, op, prepare, prepared=None):
        if prepare:
            return self._args(op, ("a", "qty"), ("b", "qty"))
        (a, ma), (b, mb) = prepared
        f = op["f"]
        r = (a == b) if f == "==" else (a < b)
        return "bool", r, None, {}

    def _render(self, x, how):
        if how == "str":
            return str(x)
        if how == "repr":
            return repr(x)
        if how == "/":
            return format(x, "/") if not isinstance(x, self.L.Quantity) else format(x, ":/")
        if how == "pretty":
            try:
                from IPython.lib.pretty import pretty
            except ImportError:
                from sim.stubs import pretty
            return pretty(x)
        if how == "mathml":
            return x._repr_html_()
        raise ValueError(how)

    def op_render(self, op, prepare, prepared=None):
        if prepare:
            return self._args(op, ("x", op["kind"]))
        (x, mx), = prepared
        text = self._render(x, op["how"])
        return "text", text, {"of": mx, "kind": op["kind"], "how": op["how"]}, {"_text": text}

    def op_parse(self, op, prepare, prepared=None):
        if prepare:
            if "literal" in op:
                return [(op["literal"], None)]
            ent = self.vals.get(op["text"][1])
            if ent is None or ent[0] != "text" or ent[1] is ABSENT:
                return None
            return [(ent[1], self.mvals.get(op["text"][1]))]
        (text, mt), = prepared
        if op["kind"] == "unit":
            u = self.L.Unit.parse(text)
            return "unit", u, None, {"_src": mt, "_text": text}
        q = self.L.Quantity.parse(text)
        return "qty", q, None, {"_src": mt, "_text": text}

    CODECS = ("pickle2", "pickle3", "pickle4", "pickle5", "copy", "deepcopy", "json", "json_ctx")

    def op_roundtrip(self, op, prepare, prepared=None):
        if prepare:
            return self._args(op, ("x", op["kind"]))
        (x, mx), = prepared
        codec = op["codec"]
        if codec.startswith("pickle"):
            y = pickle.loads(pickle.dumps(x, protocol=int(codec[6:])))
        elif codec == "copy":
            y = copy.copy(x)
        elif codec == "deepcopy":
            y = copy.deepcopy(x)
        elif codec == "json":
            from measured.json import MeasuredJSONDecoder, MeasuredJSONEncoder

            y = json.loads(json.dumps(x, cls=MeasuredJSONEncoder), cls=MeasuredJSONDecoder)
        elif codec == "json_ctx":
            from measured.json import codecs_installed

            with codecs_installed():
                y = json.loads(json.dumps(x))
        elif codec == "json_ctx_opts":
            # installed codecs must also serve callers that pass ordinary json options
            from measured.json import codecs_installed

            with codecs_installed():
                text = json.dumps(x)
                y = json.loads(text, strict=False) if op.get("id", 0) % 2 else json.loads(text, parse_constant=float)
        else:
            raise ValueError(codec)
        return op["kind"], y, mx, {"_orig": x}

    def _serialise(self, x, codec):
        import base64

        if codec.startswith("pickle"):
            return {"codec": codec, "data": base64.b64encode(pickle.dumps(x, protocol=int(codec[6:]))).decode()}
        if codec == "json":
            from measured.json import MeasuredJSONEncoder

            return {"codec": codec, "data": json.dumps(x, cls=MeasuredJSONEncoder)}
        if codec == "composite":
            m, text = x.__composite_values__()
            return {"codec": codec, "data": [mag_desc(m), text]}
        raise ValueError(codec)

    def _deserialise(self, blob):
        import base64

        codec = blob["codec"]
        if codec.startswith("pickle"):
            return pickle.loads(base64.b64decode(blob["data"]))
        if codec == "json":
            from measured.json import MeasuredJSONDecoder

            return json.loads(blob["data"], cls=MeasuredJSONDecoder)
        if codec == "composite":
            (t, r), text = blob["data"]
            m = {"int": int, "float": float}.get(t)
            mag = Decimal(r[9:-2]) if t == "Decimal" else m(r)
            return self.L.Quantity(mag, text)
        raise ValueError(codec)

    def op_dump(self, op, prepare, prepared=None):
        if prepare:
            return self._args(op, ("x", op["kind"]))
        (x, mx), = prepared
        blob = self._serialise(x, op["codec"])
        blob["kind"] = op["kind"]
        blob["model"] = M.nf_json(mx) if (mx is not None and op["kind"] in ("unit", "qty")) else None
        blob["n_fundamental"] = len(self.model.fundamental)
        if op["kind"] == "dim" and mx is not None:
            blob["model_dim"] = list(mx)
            blob["n_fundamental"] = len(self.model.fundamental)
        if op["kind"] == "qty":
            blob["m"] = mag_desc(x.magnitude)
            if op["codec"] in ("json", "composite"):
                from sim.clauses_c13 import render_class

                # harness-side classification: must not be hit (and swallowed) by an armed injection
                inj, self._inj = self._inj, None
                try:
                    blob["text_class"] = render_class(self, x.unit)
                finally:
                    self._inj = inj
        return "blob", blob, mx, {"codec": op["codec"]}

    def op_load(self, op, prepare, prepared=None):
        if prepare:
            ent = self.vals.get(op["blob"][1])
            if ent is None or ent[0] != "blob" or ent[1] is ABSENT:
                return None
            return [(ent[1], None)]
        (blob, _), = prepared
        if len(self.model.fundamental) > blob.get("n_fundamental", 10 ** 6):
            # decoding across a Dimension.define: on the pinned tree this creates duplicate,
            # narrower Dimension objects and (pickle) writes them into canonical units (known finding)
            self.stale_epoch = True
            self.probe("decode-across-dimension-define")
        y = self._deserialise(blob)
        mx = M.nf_from_json(blob["model"]) if blob.get("model") else None
        if blob.get("model_dim") is not None:
            mx = tuple(blob["model_dim"])
        return blob["kind"], y, mx, {"_blob": blob, "codec": blob["codec"], "restarted": bool(self.restarted)}

    def op_json_nested(self, op, prepare, prepared=None):
        """Nested / repeated use of the global JSON codec context."""
        if prepare:
            return self._args(op, ("x", op["kind"]))
        (x, mx), = prepared
        from measured import json as mjson

        how = op.get("how", "nested")
        if how == "nested":
            with mjson.codecs_installed():
                with mjson.codecs_installed():
                    inner = json.loads(json.dumps(x))
                y = json.loads(json.dumps(x))
        elif how == "install":
            mjson.install()
            try:
                y = json.loads(json.dumps(x))
            finally:
                mjson.uninstall()
        else:
            with mjson.codecs_installed():
                mjson.install()
                mjson.uninstall()
                y = json.loads(json.dumps(x))
        return op["kind"], y, mx, {"_orig": x}

    # measurements, levels, CLI: further doors into the intern tables -----------------
    def op_measure(self, op, prepare, prepared=None):
        if prepare:
            return self._args(op, ("q", "qty"))
        (q, mq), = prepared
        return "meas", self.L.Measurement(q, mag_from(op["unc"])), mq, {}

    def op_meas_bin(self, op, prepare, prepared=None):
        if prepare:
            a, ma = self.resolve(op["a"], "meas")
            if a is ABSENT:
                return None
            b, mb = self.resolve(op["b"], op.get("bkind", "meas"))
            if b is ABSENT:
                return None
            return [(a, ma), (b, mb)]
        (a, ma), (b, mb) = prepared
        f = op["f"]
        r = {"+": lambda: a + b, "-": lambda: a - b, "*": lambda: a * b, "/": lambda: a / b,
             "r-": lambda: b - a, "r/": lambda: b / a, "==": lambda: a == b, "<": lambda: a < b}[f]()
        if f in ("==", "<"):
            return "bool", bool(r), None, {}
        return "meas", r, None, {}

    def op_meas_pow(self, op, prepare, prepared=None):
        if prepare:
            return self._args(op, ("a", "meas"))
        (a, ma), = prepared
        return "meas", a ** op["n"], None, {}

    def op_meas_render(self, op, prepare, prepared=None):
        if prepare:
            return self._args(op, ("x", "meas"))
        (x, mx), = prepared
        how = op["how"]
        if how == "str":
            t = str(x)
        elif how == "format":
            t = format(x, op.get("spec", "%.3f::/"))
        elif how == "mathml":
            t = x._repr_html_()
        else:
            t = self._render(x, "pretty")
        return "text", t, None, {}

    def op_logunit(self, op, prepare, prepared=None):
        if prepare:
            return self._args(op, ("ref", "qty"))
        (ref, mr), = prepared
        L = self.L
        log = {"decibel": L.Decibel, "bel": L.Bel, "neper": L.Neper, "octave": L.Octave}[op["log"]]
        if op.get("prefix"):
            log = L.Prefix._by_name[op["prefix"]] * log
        return "logunit", log[ref], None, {}

    def op_level(self, op, prepare, prepared=None):
        if prepare:
            q, mq = self.resolve(op["q"], "qty")
            lu, _ = self.resolve(op["lu"], "logunit")
            if q is ABSENT or lu is ABSENT:
                return None
            return [(q, mq), (lu, None)]
        (q, mq), (lu, _) = prepared
        how = op.get("how", "level")
        if how == "level":
            lv = q.level(lu)
        else:
            lv = mag_from(op["m"]) * lu
        return "level", lv, None, {}

    def op_level_quantify(self, op, prepare, prepared=None):
        if prepare:
            return self._args(op, ("lv", "level"))
        (lv, _), = prepared
        q = lv.quantify()
        str(lv), repr(lv.unit), lv.unit._repr_html_()
        return "qty", q, None, {}

    def op_cli(self, op, prepare, prepared=None):
        """measured.cli.print_quantity on the str() of a quantity (stdout captured)."""
        if prepare:
            return self._args(op, ("q", "qty"))
        (q, mq), = prepared
        from measured import cli

        buf = io.StringIO()
        with contextlib.redirect_stdout(buf):
            try:
                cli.print_quantity(str(q))
            except SystemExit:
                pass
        return "text", buf.getvalue(), None, {}

    def op_evict(self, op, prepare, prepared=None):
        if prepare:
            return []
        n = evict_caches(self.L, self.conv, op.get("caches"))
        self.faults_fired["F4"] = self.faults_fired.get("F4", 0) + 1
        return None, ABSENT, None, {"evicted": n}

    def op_import(self, op, prepare, prepared=None):
        if prepare:
            return []
        before = set(self.L.Unit._by_name)
        importlib.import_module("measured." + op["module"])
        new = [n for n in self.L.Unit._by_name if n not in before]
        for n in new:
            self._register_token(self.L.Unit._by_name[n])
        # the model learns the newly shipped declarations from the library's
        # registries (they are data of the boot configuration, not results)
        from sim.boot import unit_desc

        descs = {n: unit_desc(self.L.Unit._by_name[n]) for n in new}
        for n, d in descs.items():
            if not d.get("half_built") and d["base"]:
                self.model.base_dim[d["names"][0]] = M.d_norm(d["dim"])
        for n, d in descs.items():
            if not d.get("half_built"):
                self.model.unit_names[n] = M.ModelWorld.nf_of_desc(d)
        for s, u in self.L.Unit._by_symbol.items():
            if s not in self.model.unit_symbols and u.names and u.names[0] in self.model.unit_names:
                self.model.unit_symbols[s] = self.model.unit_names[u.names[0]]
        for n, p in self.L.Prefix._by_name.items():
            if n not in self.model.prefix_names:
                self.model.prefix_names[n] = M.p_norm([(p.base, Fraction(p.exponent))])
        for x, p in self.L.Prefix._by_symbol.items():
            if x not in self.model.prefix_symbols:
                self.model.prefix_symbols[x] = M.p_norm([(p.base, Fraction(p.exponent))])
        return None, ABSENT, None, {"new_units": len(new)}


    # further declaration entry points ------------------------------------
    def op_dim_unit(self, op, prepare, prepared=None):
        """Dimension.unit(name, symbol) (the usual way shipped modules define units)."""
        if prepare:
            return self._args(op, ("dim", "dim"))
        (d, md), = prepared
        u = d.unit(op["name"], op["symbol"])
        self._register_token(u)
        nf = self.model.define_unit(op["name"], op["symbol"], md) if md is not None else None
        return "unit", u, nf, {}

    def op_scale(self, op, prepare, prepared=None):
        if prepare:
            return self._args(op, ("dim", "dim"), ("zero", "qty"))
        (d, md), (z, mz) = prepared
        u = d.scale(z, op["name"], op["symbol"])
        self._register_token(u)
        nf = self.model.define_unit(op["name"], op["symbol"], md) if md is not None else None
        return "unit", u, nf, {}

    def op_dim_derive(self, op, prepare, prepared=None):
        if prepare:
            return self._args(op, ("dim", "dim"))
        (d, md), = prepared
        kw = {"name": op["name"]}
        if op.get("symbol"):
            kw["symbol"] = op["symbol"]
        r = self.L.Dimension.derive(d, **kw)
        if md is not None:
            self.model.dims[op["name"]] = md
        return "dim", r, md, {}

    def op_dim_define(self, op, prepare, prepared=None):
        if prepare:
            return []
        r = self.L.Dimension.define(op["name"], op["symbol"])
        self.model.fundamental.append(op["name"])
        md = (0,) * (len(self.model.fundamental) - 1) + (1,)
        self.model.dims[op["name"]] = md
        return "dim", r, md, {}

    # dimension and prefix algebra ---------------------------------------
    def op_d_bin(self, op, prepare, prepared=None):
        if prepare:
            return self._args(op, ("a", "dim"), ("b", "dim"))
        (a, ma), (b, mb) = prepared
        both = ma is not None and mb is not None
        if op["f"] == "*":
            return "dim", a * b, (M.d_mul(ma, mb) if both else None), {}
        return "dim", a / b, (M.d_div(ma, mb) if both else None), {}

    def op_d_pow(self, op, prepare, prepared=None):
        if prepare:
            return self._args(op, ("a", "dim"))
        (a, ma), = prepared
        return "dim", a ** op["n"], (M.d_pow(ma, op["n"]) if ma is not None else None), {}

    def op_d_root(self, op, prepare, prepared=None):
        if prepare:
            return self._args(op, ("a", "dim"))
        (a, ma), = prepared
        return "dim", a.root(op["n"]), (M.d_root(ma, op["n"]) if ma is not None else None), {}

    def op_p_bin(self, op, prepare, prepared=None):
        if prepare:
            return self._args(op, ("a", "prefix"), ("b", "prefix"))
        (a, ma), (b, mb) = prepared
        both = ma is not None and mb is not None
        if op["f"] == "*":
            return "prefix", a * b, (M.p_mul(ma, mb) if both else None), {}
        return "prefix", a / b, (M.p_div(ma, mb) if both else None), {}

    def op_p_pow(self, op, prepare, prepared=None):
        if prepare:
            return self._args(op, ("a", "prefix"))
        (a, ma), = prepared
        return "prefix", a ** op["n"], (M.p_pow(ma, op["n"]) if ma is not None else None), {}

    def op_p_root(self, op, prepare, prepared=None):
        if prepare:
            return self._args(op, ("a", "prefix"))
        (a, ma), = prepared
        return "prefix", a.root(op["n"]), (M.p_root(ma, op["n"]) if ma is not None else None), {}

    def op_prefix_new(self, op, prepare, prepared=None):
        if prepare:
            return []
        kw = {}
        if op.get("name"):
            kw["name"] = op["name"]
        if op.get("symbol"):
            kw["symbol"] = op["symbol"]
        p = self.L.Prefix(op["base"], op["exp"], **kw)
        m = M.p_norm([(op["base"], op["exp"])])
        if op.get("name"):
            self.model.prefix_names[op["name"]] = m
        if op.get("symbol"):
            self.model.prefix_symbols[op["symbol"]] = m
        return "prefix", p, m, {}


# ======================================================================
# Clause sets
# ======================================================================
class Clauses:
    def __init__(self, interp):
        self.I = interp

    def before_op(self, op, prepared):
        pass

    def after_op(self, op, prepared, kind, value, mval, exc, info, rec):
        return None

    def at_end(self):
        pass


class C01Clauses(Clauses):
    """C01.stored: every interned unit's stored dimension equals the product of
    its factors' dimensions (integer arithmetic of the model, not the library's
    Dimension operators).  C01.predicted: the dimension reported by an operation's
    result equals the dimension of the model's normal form for that expression,
    whatever happened earlier."""

    def __init__(self, interp):
        super().__init__(interp)
        self.reported = set()

    def stale(self, u):
        """The listed dimension-epoch finding applies to this unit only if a decode across a
        Dimension.define happened in this world AND the unit, or one of its factors, carries an
        exponent tuple of an older (narrower) width - the trace of a stale duplicate Dimension."""
        if not self.I.stale_epoch:
            return False
        try:
            width = len(self.I.L.Dimension._fundamental) + 1
            dims = [u.dimension] + [f.dimension for f in u.factors]
            return any(len(d.exponents) != width for d in dims)
        except AttributeError:
            return False

    def scan(self, start, creator):
        L = self.I.L
        known = L.Unit._known
        n = len(known)
        bad = 0
        if n <= start:
            return n, 0
        for u in itertools.islice(list(known.values()), start, None):
            self.I.count("C01.stored.checked")
            try:
                stored = M.d_norm(u.dimension.exponents)
                factors = list(u.factors.items())
            except AttributeError:
                self.I.count("half-built-unit-seen")
                continue
            if len(factors) == 1 and factors[0][0] is u:
                self.I.count("C01.stored.trivial")
                continue
            calc = ()
            ok = True
            for f, e in factors:
                try:
                    calc = M.d_mul(calc, M.d_pow(M.d_norm(f.dimension.exponents), int(e)))
                except AttributeError:
                    ok = False
                    break
            if not ok:
                continue
            if calc != stored:
                if id(u) in self.reported:
                    continue
                self.reported.add(id(u))
                bad += 1
                nf = self.I.nf_of(u)
                self.I.violation(
                    "C01.stored",
                    "C01/wrong-dimension/" + ("after-decode-across-dimension-define" if self.stale(u) else
                                              self.I.creators.get(id(u), "op:" + creator)),
                    {"unit": M.nf_str(nf), "stored": list(stored), "factors_product": list(calc),
                     "during": creator},
                )
        return n, bad

    def after_op(self, op, prepared, kind, value, mval, exc, info, rec):
        out = {}
        creator = op["op"] + (":" + op["how"] if op["op"] == "render" else "")
        n, bad = self.scan(self.I.known_scanned, creator)
        new = n - self.I.known_scanned
        self.I.known_scanned = n
        rec["new_interned"] = new
        out["C01.stored"] = "ok" if not bad else "VIOLATED"
        if exc is None and kind in ("unit", "qty", "pair") and mval is not None:
            pairs = []
            if kind == "unit":
                pairs = [(value, mval)]
            elif kind == "qty":
                pairs = [(value.unit, mval)]
            elif kind == "pair":
                pairs = [(v, m) for v, m in zip(value, mval) if m is not None]
            verdict = "ok"
            for u, m in pairs:
                try:
                    want = self.I.model.dim_of(m)
                except KeyError:
                    continue
                self.I.count("C01.predicted.checked")
                got = M.d_norm(u.dimension.exponents)
                if got != want:
                    verdict = "VIOLATED"
                    if id(u) in self.reported:
                        self.I.count("C01.predicted.consequence-of-reported")
                        continue
                    self.reported.add(id(u))
                    self.I.violation(
                        "C01.predicted",
                        "C01/wrong-dimension/" + ("after-decode-across-dimension-define" if self.stale(u) else
                                                  self.I.creators.get(id(u), "op:" + creator)),
                        {"expr_nf": M.nf_str(m), "reported": list(got), "expected": list(want),
                         "during": creator},
                    )
            out["C01.predicted"] = verdict
        return out

    def at_end(self):
        n, bad = self.scan(0, "end-of-run-scan")
        self.I.count("C01.final_scan", n)


def make_clauses(prop, interp):
    table = {"C01": [C01Clauses]}
    from sim import clauses_a

    table.update(clauses_a.TABLE)
    return [c(interp) for c in table.get(prop, [])]


def merge_carry(res, carry):
    """Fold the previous world's verdicts into this world's result."""
    from sim.util import digest as _digest

    res["digest"] = _digest([carry["digest"], res["digest"]])
    res["n_ops"] += carry.get("n_ops", 0)
    res["violations"] = list(carry.get("violations") or []) + res["violations"]
    for key in ("counters", "probes", "faults_fired"):
        for k, v in (carry.get(key) or {}).items():
            res[key][k] = res[key].get(k, 0) + v
    return res


def run(req, boot, interp_cls=None):
    interp = (interp_cls or Interp)(boot, req["prop"], req.get("opts"))
    ops = req.get("ops")
    if ops is None:
        from sim import gen_a

        ops = gen_a.generate(req["seed"], req["prop"], boot.snapshot, req.get("params") or {})
    carry = req.get("carry")
    if carry:
        interp.adopt(carry)
    res = interp.run(ops)
    if carry:
        res = merge_carry(res, carry)
        if "carry" in res:
            res["carry"]["digest"] = res["digest"]
            res["carry"]["n_ops"] = res["n_ops"]
            res["carry"]["violations"] = res["violations"]
            for key in ("counters", "probes", "faults_fired"):
                res["carry"][key] = res[key]
    if "continue_ops" in res:
        nxt = {k: v for k, v in req.items() if k not in ("ops", "carry", "seed")}
        nxt["ops"] = res.pop("continue_ops")
        nxt["carry"] = res.pop("carry")
        nxt["original_ops"] = req.get("original_ops") or (ops if req.get("want_ops") else None)
        nxt["n_generated"] = req.get("n_generated") or len(ops)
        return {"continue": nxt}
    orig = req.get("original_ops")
    res["ops"] = (orig or ops) if req.get("want_ops") else None
    res["n_generated"] = req.get("n_generated") or len(ops)
    return res
