"""Seeded generator of World T programs: 2-3 threads, each evaluating 1-4
expressions that denote objects not yet interned in a fresh world; the threads
use the same or merely equal-valued expressions."""
import random

DIMS = ["length", "time", "mass", "charge", "temperature", "area", "speed", "force", "energy"]
UNITS = ["meter", "second", "gram", "foot", "inch", "pound", "hour", "coulomb", "newton",
         "joule", "liter", "mile", "kelvin", "watt", "radian", "bit"]
PREFIXES = ["kilo", "milli", "mega", "micro", "giga", "nano", "kibi", "mebi", "hecto", "centi"]


def pick(rng, xs, avail):
    cands = [x for x in xs if x in avail]
    return rng.choice(cands or sorted(avail))


class GenT:
    def __init__(self, seed, snapshot, params):
        self.rng = random.Random(seed)
        self.snap = snapshot
        self.units = set(snapshot["units"])
        self.dims = set(snapshot["dims"])
        self.prefixes = set(snapshot["prefixes"])
        self.params = params or {}

    def big(self):
        return self.rng.choice([5, 6, 7, 8, 9, -5, -6, -7, -9, 11])

    def odd(self):
        return self.rng.choice([3, -3, 5, -5, 4, -4, 7])

    # each returns (expr, list of equal-valued variants)
    def e_dim(self):
        r = self.rng
        a = ["d", pick(r, DIMS, self.dims)]
        b = ["d", pick(r, DIMS, self.dims)]
        n, m = self.big(), self.odd()
        form = r.randrange(4)
        if form == 0:
            return ["d_pow", a, n], [["d_mul", ["d_pow", a, n - 1], a], ["d_pow", ["d_pow", a, 1], n]]
        if form == 1:
            e = ["d_mul", ["d_pow", a, n], ["d_pow", b, m]]
            return e, [["d_mul", ["d_pow", b, m], ["d_pow", a, n]],
                       ["d_div", ["d_pow", a, n], ["d_pow", b, -m]]]
        if form == 2:
            e = ["d_div", ["d_pow", a, n], ["d_pow", b, m]]
            return e, [["d_mul", ["d_pow", a, n], ["d_pow", b, -m]]]
        e = ["d_root", ["d_pow", a, 2 * n], 2]
        return e, [["d_pow", a, n]]

    def e_prefix(self):
        r = self.rng
        form = r.randrange(4)
        if form == 0:
            b, x = r.choice([3, 5, 7, 11, 13]), r.choice([2, 3, -2, 5])
            return ["p_new", b, x], [["p_new", b, x]]
        p = ["p", pick(r, PREFIXES, self.prefixes)]
        n = r.choice([7, 9, 11, -7, 13])
        if form == 1:
            return ["p_pow", p, n], [["p_mul", ["p_pow", p, n - 1], p]]
        if form == 2:
            return ["p_mul", ["p_pow", p, n], p], [["p_pow", p, n + 1]]
        return ["p_div", ["p_pow", p, n], p], [["p_pow", p, n - 1]]

    def e_unit(self):
        r = self.rng
        a = ["u", pick(r, UNITS, self.units)]
        b = ["u", pick(r, UNITS, self.units)]
        while b == a:
            b = ["u", r.choice(sorted(self.units))]
        n, m = self.big(), self.odd()
        form = r.randrange(8)
        if form == 0:
            return ["u_pow", a, n], [["u_mul", ["u_pow", a, n - 1], a]]
        if form == 1:
            e = ["u_mul", ["u_pow", a, n], ["u_pow", b, m]]
            return e, [["u_mul", ["u_pow", b, m], ["u_pow", a, n]],
                       ["u_div", ["u_pow", a, n], ["u_pow", b, -m]]]
        if form == 2:
            e = ["u_div", ["u_pow", a, n], ["u_pow", b, m]]
            return e, [["u_mul", ["u_pow", a, n], ["u_pow", b, -m]]]
        if form == 3:
            p = ["p", pick(r, PREFIXES, self.prefixes)]
            e = ["p_mul_u", p, ["u_pow", a, n]]
            return e, [["p_mul_u", p, ["u_mul", ["u_pow", a, n - 1], a]]]
        if form == 4:
            e = ["u_root", ["u_pow", a, 2 * n], 2]
            return e, [["u_pow", a, n]]
        if form == 5:
            k = abs(n)
            e = ["num", ["u_div", ["u_pow", a, k], ["u_pow", b, abs(m)]]]
            return e, [["u_pow", a, k]]
        if form == 6:
            p = ["p", pick(r, PREFIXES, self.prefixes)]
            e = ["unprefixed_unit", ["p_mul_u", p, ["u_pow", a, n]]]
            return e, [["u_pow", a, n]]
        # parse of a fresh prefixed power
        sym = self.snap["units"][a[1]]["symbols"]
        ps = [s for s, (pb, pe) in self.snap["prefix_symbols"].items()
              if s and self.snap["unit_symbols"].get(s + (sym[0] if sym else "")) is None]
        if sym and ps and all(ch.isalpha() for ch in sym[0]):
            s = sorted(ps)[r.randrange(len(ps))]
            text = "%s%s^%d" % (s, sym[0], abs(n))
            return ["parse", text], [["parse", text]]
        return ["u_pow", a, n], [["u_mul", ["u_pow", a, n - 1], a]]

    def e_log(self):
        r = self.rng
        base = r.choice([3, 5, 6, 7])
        p = ["p", pick(r, PREFIXES, self.prefixes)]
        if r.random() < 0.5:
            return ["log_new", base, p], [["log_new", base, p]]
        u = ["u", pick(r, ["watt", "volt", "pascal", "meter"], self.units)]
        e = ["logunit", ["log_new", base, p], r.choice([1, 2, 20]), u]
        return e, [e]

    def generate(self):
        r = self.rng
        deep = bool(self.params.get("long"))
        nthreads = r.choice([2, 2, 2, 3] if not deep else [2, 3, 3, 4])
        nexpr = r.choice([1, 1, 2, 3, 4] if not deep else [2, 3, 4, 6])
        kinds = r.choice([["dim"], ["prefix"], ["unit"], ["unit", "dim"], ["dim", "prefix", "unit", "log"],
                          ["unit", "prefix"], ["log"], ["unit"]])
        threads = [[] for _ in range(nthreads)]
        for _ in range(nexpr):
            k = r.choice(kinds)
            e, variants = getattr(self, "e_" + k)()
            for t in threads:
                if r.random() < 0.5 or not variants:
                    t.append(e)
                else:
                    t.append(r.choice(variants))
        if r.random() < 0.3:
            for t in threads:
                r.shuffle(t)
        strategy = r.choice(["uniform", "pct", "pct", "sticky"])
        opcode_in = []
        if r.random() < (0.25 if not deep else 0.5):
            opcode_in = r.choice([
                ["Dimension.__new__", "Prefix.__new__", "Unit.__new__"],
                ["Unit.__new__"], ["Dimension.__new__"], ["Prefix.__new__"],
                ["Logarithm.__new__", "LogarithmicUnit.__new__"],
            ])
        return {
            "threads": threads,
            "strategy": strategy,
            "d": r.choice([1, 2, 3]),
            "sched_seed": r.getrandbits(48),
            "opcode_in": opcode_in,
            "max_steps": 20000,
            "est_len": r.choice([60, 150, 300, 600]),
        }


def generate(seed, snapshot, params):
    return GenT(seed, snapshot, params).generate()
