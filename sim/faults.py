"""Fault kinds F2 (asynchronous exception at the k-th line event inside library
code during one operation) and F4 (cache eviction)."""
import sys

from sim.boot import MEASURED_DIR

EXC = {"KeyboardInterrupt": KeyboardInterrupt, "MemoryError": MemoryError}

CACHE_NAMES = (
    "plan", "path", "u_mul", "u_div", "u_quantify", "u_as_ratio", "d_mul", "d_div",
    "d_as_ratio",
)


def cache_objects(L, conv):
    return {
        "plan": conv._plan_conversion,
        "path": conv._find_path,
        "u_mul": L.Unit._multiply,
        "u_div": L.Unit._divide,
        "u_quantify": L.Unit.quantify,
        "u_as_ratio": L.Unit.as_ratio,
        "d_mul": L.Dimension._multiply,
        "d_div": L.Dimension._divide,
        "d_as_ratio": L.Dimension.as_ratio,
    }


def evict_caches(L, conv, names=None):
    objs = cache_objects(L, conv)
    n = 0
    for name in (names or CACHE_NAMES):
        f = objs.get(name)
        clear = getattr(f, "cache_clear", None)
        if clear is not None:
            clear()
            n += 1
    return n


class Injector:
    """Raises `exc` from the line tracer at the `ordinal`-th line event executed
    in measured/*.py after start().  ordinal <= 0 only counts lines."""

    def __init__(self, ordinal, exc="KeyboardInterrupt", opcodes=False):
        self.opcodes = opcodes        # count bytecode instructions instead of source lines
        self.ordinal = ordinal
        self.exc_type = EXC[exc]
        self.n = 0
        self.fired = False
        self.where = None

    def _global(self, frame, event, arg):
        if frame.f_code.co_filename.startswith(MEASURED_DIR):
            return self._local
        return None

    def _local(self, frame, event, arg):
        if self.opcodes and not frame.f_trace_opcodes:
            frame.f_trace_opcodes = True
        if event == ("opcode" if self.opcodes else "line"):
            self.n += 1
            if self.n == self.ordinal and not self.fired:
                self.fired = True
                self.where = (frame.f_code.co_qualname, frame.f_lineno)
                raise self.exc_type("injected by simulator")
        return self._local

    def start(self):
        sys.settrace(self._global)

    def stop(self):
        sys.settrace(None)
