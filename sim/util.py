"""Small shared helpers: seed derivation, canonical JSON, digests.

Nothing here imports `measured`; nothing here reads a clock or a PRNG.
"""
import hashlib
import json
import os

REPO = os.environ.get("VERIF_REPO", "/repo")
REPO_SRC = os.path.join(REPO, "src")
VERIF = os.path.dirname(os.path.dirname(os.path.abspath(__file__)))
# scratch redirection used only by tools/run_mutants.py (never by registered checks)
EVIDENCE_DIR = os.environ.get("VERIF_EVIDENCE_DIR") or os.path.join(VERIF, "evidence")
REPLAY_DIR = os.environ.get("VERIF_REPLAY_DIR") or os.path.join(VERIF, "replays")


def h64(*parts):
    """Derive a 63-bit integer from the given parts (stable across processes)."""
    data = json.dumps(parts, sort_keys=True, separators=(",", ":"), default=str)
    return int.from_bytes(hashlib.sha256(data.encode()).digest()[:8], "big") >> 1


def canon(obj):
    return json.dumps(
        obj, sort_keys=True, separators=(",", ":"), ensure_ascii=True, default=str
    )


def digest(lines):
    h = hashlib.sha256()
    for line in lines:
        h.update(line.encode() if isinstance(line, str) else line)
        h.update(b"\n")
    return h.hexdigest()


def source_hashes():
    out = {}
    for rel in ("src/measured/__init__.py", "src/measured/conversions.py",
                "src/measured/formatting.py"):
        try:
            with open(os.path.join(REPO, rel), "rb") as f:
                out[rel] = hashlib.sha256(f.read()).hexdigest()[:16]
        except OSError:
            out[rel] = None
    return out
