"""World B — declaration/query histories (C04, C05, C07, C08).

Same interpreter as World A plus the operations of a unit system under
construction (declare, chained/linear/round-trip conversions, sorted) and the
clause sets of the conversion properties.  The hidden exact size of every
synthetic unit travels in its definition op ("size": "p/q"); the conversion
oracle is  magnitude * size(source) / size(target)  in exact rational arithmetic.
"""
import linecache
import math
from decimal import Decimal
from fractions import Fraction

from sim import model as M
from sim.boot import MEASURED_DIR
from sim.gen_b import pair_class
from sim.world_a import ABSENT, Clauses, Interp, mag_desc, mag_from


def frac(x):
    try:
        if isinstance(x, float) and (math.isnan(x) or math.isinf(x)):
            return None
        return Fraction(x)
    except (TypeError, ValueError, OverflowError):
        return None


FLOAT_LO, FLOAT_HI = 1e-150, 1e150


def representable(*values):
    """False when a magnitude is so extreme that float under/overflow (not the planner)
    would decide the outcome: natural and astronomical units span 120 orders of
    magnitude, and their powers leave the float range."""
    for v in values:
        if v is None:
            continue
        try:
            a = abs(float(v))
        except (OverflowError, ValueError):
            return False
        if a != 0.0 and not (FLOAT_LO <= a <= FLOAT_HI):
            return False
    return True


def rel_err(got, want):
    if got is None or want is None:
        return None
    if want == 0:
        return 0.0 if got == 0 else float("inf")
    return float(abs(got - want) / abs(want))


def nf_equiv(a, b):
    """Same factors and numerically equal prefix (the library collapses mixed-base
    prefixes to one base with a float exponent)."""
    if a is None or b is None:
        return False
    if a == b:
        return True
    if a[1] != b[1]:
        return False
    return M.p_close(a[0], b[0])


def binary_prefixed(*nfs):
    return any(b != 10 for nf in nfs if nf for b, _ in nf[0])


class InterpB(Interp):
    def __init__(self, boot, prop, opts=None):
        self.sizes = {}
        self.query_outcomes = {}
        self.query_classes = {}
        self.query_orders = {}
        super().__init__(boot, prop, opts)
        self.model.compound_declared = set(boot.snapshot.get("compound_declared") or [])
        self.sizes.update(getattr(boot, "shipped_sizes", None) or {})

    def make_clauses(self):
        return [c(self) for c in CLAUSES.get(self.prop, [])]

    def size_nf(self, nf):
        if nf is None:
            return None
        v = M.p_value(nf[0])
        if not isinstance(v, Fraction):
            return None
        for t, e in nf[1]:
            s = self.sizes.get(t)
            if s is None:
                return None
            v *= s ** e
        return v

    def degree(self, nf):
        return max(1, sum(abs(e) for _, e in nf[1]))

    def exact(self, nf):
        """True when every factor is a synthetic (exactly consistent) unit and no synthetic unit of
        this world has been declared against shipped units (whose own definitions agree only to
        about 1e-6, so a route through them is not exact)."""
        return not self.linked_to_shipped and all(t in self.synthetic for t, _ in nf[1])

    linked_to_shipped = False

    synthetic = frozenset()

    def op_dim_unit(self, op, prepare, prepared=None):
        r = super().op_dim_unit(op, prepare, prepared)
        if not prepare and "size" in op:
            self.sizes[op["name"]] = Fraction(op["size"])
            self.synthetic = self.synthetic | {op["name"]}
        return r

    def op_declare(self, op, prepare, prepared=None):
        if prepare:
            return self._args(op, ("a", "unit"), ("expr", "unit"))
        (a, ma), (e, me) = prepared
        a.equals(mag_from(op["m"]) * e)
        for m_ in (ma, me):
            if m_ is not None and any(t not in self.synthetic for t, _ in m_[1]):
                self.linked_to_shipped = True
        if "resize" in op:
            self.sizes[op["resize"]["token"]] = Fraction(op["resize"]["size"])
        if ma is not None and me is not None and len(ma[1]) == 1 and \
                (len(me[1]) > 1 or sum(x for _, x in me[1]) > 1):
            self.model.compound_declared.add(ma[1][0][0])
        return None, ABSENT, None, {}

    # C05 composite queries: all conversions happen inside one op so that no other
    # operation can come in between; the numbers are judged by the clause set.
    def op_conv_linear(self, op, prepare, prepared=None):
        if prepare:
            return self._args(op, ("q", "qty"), ("u", "unit"))
        (q, mq), (u, mu) = prepared
        k = mag_from(op["k"])
        base = q.in_unit(u)
        scaled = (k * q).in_unit(u)
        return "qty", scaled, mu, {"_base": base, "_k": k, "_q": q}

    def op_conv_roundtrip(self, op, prepare, prepared=None):
        if prepare:
            return self._args(op, ("q", "qty"), ("u", "unit"))
        (q, mq), (u, mu) = prepared
        there = q.in_unit(u)
        back = there.in_unit(q.unit)
        return "qty", back, mq, {"_q": q, "_there": there}

    def op_conv_self(self, op, prepare, prepared=None):
        if prepare:
            return self._args(op, ("q", "qty"))
        (q, mq), = prepared
        return "qty", q.in_unit(q.unit), mq, {"_q": q}

    def op_conv_via(self, op, prepare, prepared=None):
        if prepare:
            return self._args(op, ("q", "qty"), ("via", "unit"), ("u", "unit"))
        (q, mq), (v, mv), (u, mu) = prepared
        direct = q.in_unit(u)
        via = q.in_unit(v).in_unit(u)
        return "qty", via, mu, {"_direct": direct, "_q": q, "_hops": 2}

    def op_sorted(self, op, prepare, prepared=None):
        if prepare:
            out = []
            for r in op["qs"]:
                v, m = self.resolve(r, "qty")
                if v is ABSENT:
                    return None
                out.append((v, m))
            return out
        qs = [v for v, m in prepared]
        s = sorted(qs)
        return "bool", True, None, {"order": [mag_desc(x.magnitude) for x in s]}


def innermost_library_frame(exc):
    tb = exc.__traceback__
    best = None
    while tb is not None:
        fn = tb.tb_frame.f_code.co_filename
        if fn.startswith(MEASURED_DIR):
            best = (tb.tb_frame.f_code.co_qualname, fn, tb.tb_lineno)
        tb = tb.tb_next
    if best is None:
        return "<outside-library>"
    q, fn, ln = best
    text = linecache.getline(fn, ln).strip()
    return "%s:%s" % (q, text[:60])


QUERY_OPS = {"convert", "cmp", "q_bin", "conv_linear", "conv_roundtrip", "conv_self", "conv_via", "sorted"}


class QueryRecorder(Clauses):
    """Records the outcome of every query (used by C08's differential and by the
    -O differential of C07 through the digest)."""

    def after_op(self, op, prepared, kind, value, mval, exc, info, rec):
        if op["op"] not in QUERY_OPS:
            return None
        if exc is not None:
            o = {"cls": "raise:" + type(exc).__name__}
        elif kind == "qty":
            o = {"cls": "ok", "m": mag_desc(value.magnitude)}
        elif kind == "bool":
            o = {"cls": "ok", "b": bool(value)}
            if "order" in info:
                o["order"] = info["order"]
        else:
            o = {"cls": "ok"}
        rec["q"] = o
        self.I.query_outcomes[op["id"]] = o
        nfs = [m for _, m in prepared if isinstance(m, tuple) and len(m) == 2]
        cls = None
        for a, b in zip(nfs, nfs[1:]):
            cls = cls or pair_class(self.I.model, a, b)
        self.I.query_classes[op["id"]] = cls or "in-region"
        # the order in which each operand unit's factors were first multiplied (creation
        # history); a side table, not part of the digest
        orders = []
        for v, m in prepared:
            u = getattr(v, "unit", v)
            f = getattr(u, "factors", None)
            if f is not None:
                orders.append([self.I.tok.get(id(k), "?") for k in f])
        self.I.query_orders[op["id"]] = orders
        return None


class C08Clauses(Clauses):
    """In-history part: repeating a query with no declaration in between gives the
    bit-identical outcome.  (The fresh-world differential is evaluated by the
    plan from the recorded outcomes.)"""

    def __init__(self, interp):
        super().__init__(interp)
        self.decl_count = 0
        self.seen = {}   # op id -> (outcome, decl_count)

    def after_op(self, op, prepared, kind, value, mval, exc, info, rec):
        I = self.I
        if op["op"] in ("declare", "scale"):
            self.decl_count += 1
            return None
        if op["op"] not in QUERY_OPS:
            return None
        if rec.get("injected"):
            return None
        o = I.query_outcomes.get(op["id"])
        self.seen[op["id"]] = (o, self.decl_count)
        ro = op.get("repeat_of")
        if ro is not None and ro in self.seen:
            first, dc = self.seen[ro]
            if dc == self.decl_count:
                I.count("C08.repeat.checked")
                I.probe("repeat-without-declaration-between")
                if first != o:
                    I.violation("C08.repeat", "C08/history/repeat-differs",
                                {"first": first, "again": o, "op": op})
                    return {"C08.repeat": "VIOLATED"}
                return {"C08.repeat": "ok"}
            I.probe("repeat-after-declaration")
        return None


class C04Clauses(Clauses):
    """A conversion that returns a value returns the right value in the asked unit."""

    TOL_EXACT = 1e-12       # float rounding only (the property says "exactly"); 1e-9 when bases 2 and 10 mix
    TOL_SHIPPED_PER_DEGREE = 1e-5

    def judge(self, q, src_nf, dst_nf, got):
        I = self.I
        s, d = I.size_nf(src_nf), I.size_nf(dst_nf)
        if s is None or d is None or d == 0:
            I.count("C04.value.skipped-no-size")
            return None
        want = frac(q.magnitude)
        if want is None:
            return None
        want = want * s / d
        parts = [I.sizes.get(t) ** e for t, e in list(src_nf[1]) + list(dst_nf[1]) if I.sizes.get(t)]
        if not representable(want, s, d, s / d, *parts):
            I.count("C04.value.skipped-float-range")
            return None
        err = rel_err(frac(got.magnitude), want)
        if err is None:
            return None
        exact = I.exact(src_nf) and I.exact(dst_nf)
        tol = self.TOL_EXACT if exact else self.TOL_SHIPPED_PER_DEGREE * (I.degree(src_nf) + I.degree(dst_nf))
        if exact and binary_prefixed(src_nf, dst_nf):
            tol = 1e-9
        return err, tol, want, exact

    def after_op(self, op, prepared, kind, value, mval, exc, info, rec):
        if op["op"] != "convert" or exc is not None:
            return None
        I = self.I
        (q, mq), (u, mu) = prepared
        out = {}
        I.count("C04.unit.checked")
        if value.unit is not u:
            I.violation("C04.unit", "C04/wrong-unit", {"asked": M.nf_str(mu), "got": M.nf_str(I.nf_of(value.unit))})
            out["C04.unit"] = "VIOLATED"
        if mq is None or mu is None or not nf_equiv(I.nf_of(q.unit), mq) or not nf_equiv(I.nf_of(u), mu):
            I.count("C04.value.skipped-nf")
            return out
        j = self.judge(q, mq, mu, value)
        if j is None:
            return out
        err, tol, want, exact = j
        I.count("C04.value.checked")
        if exact:
            I.count("C04.value.checked.exact-system")
        if err > tol:
            from sim.gen_b import pair_class

            cls = pair_class(I.model, mq, mu) or "in-region"
            I.violation("C04.value", "C04/wrong-value/" + cls,
                        {"src": M.nf_str(mq), "dst": M.nf_str(mu), "m": mag_desc(q.magnitude),
                         "got": mag_desc(value.magnitude), "want": str(float(want)), "rel_err": err})
            out["C04.value"] = "VIOLATED"
        else:
            out["C04.value"] = "ok"
        return out


class C05Clauses(C04Clauses):
    """Linearity, zero, sign, identity, there-and-back, via-intermediate."""

    def after_op(self, op, prepared, kind, value, mval, exc, info, rec):
        I = self.I
        name = op["op"]
        if exc is not None or name not in ("conv_linear", "conv_roundtrip", "conv_self", "conv_via", "convert"):
            return None
        out = {}

        def bad(clause, detail):
            from sim.gen_b import pair_class

            nfs = [m for _, m in prepared if isinstance(m, tuple) and len(m) == 2]
            cls = None
            for a, b in zip(nfs, nfs[1:]):
                cls = cls or pair_class(I.model, a, b)
            out["C05." + clause] = "VIOLATED"
            I.violation("C05." + clause, "C05/%s/%s" % (clause, cls or "in-region"), detail)

        if name == "convert":
            # zero -> zero and sign preservation on every plain conversion
            (q, mq), (u, mu) = prepared
            a, b = frac(q.magnitude), frac(value.magnitude)
            if a is not None and b is not None:
                I.count("C05.sign.checked")
                if (a == 0) != (b == 0) or (a > 0) != (b > 0):
                    bad("sign", {"m": mag_desc(q.magnitude), "got": mag_desc(value.magnitude),
                                 "src": M.nf_str(mq), "dst": M.nf_str(mu)})
            return out
        nfs_ = [m for _, m in prepared if isinstance(m, tuple) and len(m) == 2]
        szs = [I.size_nf(m) for m in nfs_]
        if any(x is None for x in szs) or not representable(*szs) or not representable(
                *[a / b for a in szs for b in szs if b]):
            I.count("C05.skipped-float-range-or-unsized")
            return out
        q0 = info.get("_q")
        if q0 is not None and not representable(*[frac(q0.magnitude) * a / b for a in szs for b in szs if b
                                                  if frac(q0.magnitude) is not None]):
            I.count("C05.skipped-float-range-or-unsized")
            return out
        exact = all(m is not None and I.exact(m) for _, m in prepared if isinstance(m, tuple))
        deg = sum(I.degree(m) for _, m in prepared if isinstance(m, tuple))
        # conversions between binary and decimal prefixes go through float logarithms
        # in the library: the property's own bound for mixed bases is 1e-9
        loose = 1e-9 if binary_prefixed(*[m for _, m in prepared if isinstance(m, tuple)]) else 0.0
        if name == "conv_linear":
            k, base = frac(info["_k"]), frac(info["_base"].magnitude)
            got = frac(value.magnitude)
            I.count("C05.linear.checked")
            if k is not None and base is not None and got is not None:
                want = k * base
                err = rel_err(got, want)
                tol = max(1e-12, loose) if exact else 1e-5 * deg
                if want == 0:
                    if got != 0:
                        bad("zero", {"k": mag_desc(info["_k"]), "got": mag_desc(value.magnitude)})
                elif err > max(tol, 1e-12):
                    bad("linear", {"k": mag_desc(info["_k"]), "base": mag_desc(info["_base"].magnitude),
                                   "got": mag_desc(value.magnitude), "rel_err": err})
                elif (got > 0) != (want > 0):
                    bad("sign", {"k": mag_desc(info["_k"]), "got": mag_desc(value.magnitude)})
        elif name == "conv_self":
            q = info["_q"]
            I.count("C05.self.checked")
            a, b = frac(q.magnitude), frac(value.magnitude)
            if a is not None and b is not None and rel_err(b, a) > max(1e-12, loose):
                bad("self", {"m": mag_desc(q.magnitude), "got": mag_desc(value.magnitude),
                             "unit": M.nf_str(prepared[0][1])})
            if value.unit is not q.unit:
                bad("self", {"unit-identity": False})
        elif name == "conv_roundtrip":
            q = info["_q"]
            I.count("C05.roundtrip.checked")
            a, b = frac(q.magnitude), frac(value.magnitude)
            tol = max(2e-12, loose) if exact else 1e-5 * deg
            if a is not None and b is not None and rel_err(b, a) > tol:
                bad("roundtrip", {"m": mag_desc(q.magnitude), "back": mag_desc(value.magnitude),
                                  "there": mag_desc(info["_there"].magnitude),
                                  "src": M.nf_str(prepared[0][1]), "dst": M.nf_str(prepared[1][1])})
        elif name == "conv_via":
            I.count("C05.via.checked")
            a, b = frac(info["_direct"].magnitude), frac(value.magnitude)
            tol = max(3e-12, loose) if exact else 1e-5 * deg
            if a is not None and b is not None and rel_err(b, a) > tol:
                bad("via", {"direct": mag_desc(info["_direct"].magnitude), "via": mag_desc(value.magnitude),
                            "src": M.nf_str(prepared[0][1]), "mid": M.nf_str(prepared[1][1]),
                            "dst": M.nf_str(prepared[2][1])})
        return out


class C07Clauses(Clauses):
    """Failing conversions/additions raise only ConversionNotFound, ordering raises
    TypeError, == returns False; nothing else escapes."""

    def after_op(self, op, prepared, kind, value, mval, exc, info, rec):
        name = op["op"]
        if name not in QUERY_OPS:
            return None
        I = self.I
        if exc is None:
            I.count("C07.ok-outcome")
            return None
        if rec.get("injected"):
            return None
        I.count("C07.failure.checked")
        tname = type(exc).__name__
        allowed = {"ConversionNotFound"}
        if name == "cmp" and op.get("f") == "<" or name == "sorted":
            allowed = {"TypeError", "ConversionNotFound"}
        if name == "cmp" and op.get("f") == "==":
            allowed = set()
        if tname in allowed:
            rec["c07"] = "allowed"
            return {"C07.failure": "ok"}
        where = innermost_library_frame(exc)
        from sim.gen_b import pair_class

        cls = "?"
        nfs = [m for _, m in prepared if isinstance(m, tuple) and len(m) == 2]
        if len(nfs) >= 2:
            cls = pair_class(I.model, nfs[0], nfs[1]) or "in-region"
        I.violation("C07.failure", "C07/escaped/%s@%s/%s" % (tname, where, cls),
                    {"op": {k: v for k, v in op.items() if k != "inject"}, "class": cls,
                     "nfs": [M.nf_str(x) for x in nfs], "message": str(exc)[:200]})
        return {"C07.failure": "VIOLATED"}


CLAUSES = {
    "C08": [QueryRecorder, C08Clauses],
    "C04": [QueryRecorder, C04Clauses],
    "C05": [QueryRecorder, C05Clauses],
    "C07": [QueryRecorder, C07Clauses],
}


def run(req, boot):
    interp = InterpB(boot, req["prop"], req.get("opts"))
    ops = req.get("ops")
    if ops is None:
        from sim import gen_b

        ops = gen_b.generate(req["seed"], req["prop"], boot.snapshot, req.get("params") or {})
    res = interp.run(ops)
    res["ops"] = ops if req.get("want_ops") else None
    res["n_generated"] = len(ops)
    res["queries"] = {str(k): v for k, v in interp.query_outcomes.items()}
    res["query_classes"] = {str(k): v for k, v in interp.query_classes.items()}
    res["query_orders"] = {str(k): v for k, v in interp.query_orders.items()}
    return res
