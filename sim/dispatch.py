"""Routes a run request to its engine (imported once in the template)."""
from sim import world_a

ENGINES = {"A": world_a.run}

try:
    from sim import world_b
    ENGINES["B"] = world_b.run
except ImportError:
    pass
try:
    from sim import world_t
    ENGINES["T"] = world_t.run
except ImportError:
    pass
try:
    from sim import world_boot
    ENGINES["BOOT"] = world_boot.run
except ImportError:
    pass


def dispatch(req, boot):
    return ENGINES[req["engine"]](req, boot)
