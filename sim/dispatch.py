"""Routes a run request to its engine (imported once in the template)."""
import importlib.util

from sim import world_a, world_boot, world_t

ENGINES = {"A": world_a.run, "T": world_t.run, "BOOT": world_boot.run}

if importlib.util.find_spec("sim.world_b") is not None:
    from sim import world_b

    ENGINES["B"] = world_b.run


def dispatch(req, boot):
    return ENGINES[req["engine"]](req, boot)
