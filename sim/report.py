"""Reporting helpers shared by the CLI and the plans."""
import fnmatch
import json
import os
import sys

from sim.util import EVIDENCE_DIR, VERIF


def load_findings():
    path = os.path.join(VERIF, "known_findings.json")
    if not os.path.exists(path):
        return []
    with open(path) as f:
        return json.load(f).get("findings", [])


def match_finding(findings, prop, signature):
    for f in findings:
        if f.get("property") != prop or f.get("status") != "known":
            continue
        if fnmatch.fnmatchcase(signature, f["signature"]):
            allowed = f.get("allowed_suffixes")
            if allowed is not None and signature.rsplit(":", 1)[-1] not in allowed:
                continue
            subset = f.get("allowed_changed_registries")
            if subset is not None and not set(signature.rsplit("/", 1)[-1].split("+")) <= set(subset):
                continue      # partial state reaching a registry this call has no business writing
            return f
    return None


def write_evidence(prop, ev):
    os.makedirs(EVIDENCE_DIR, exist_ok=True)
    path = os.path.join(EVIDENCE_DIR, prop + ".json")
    tmp = path + ".tmp"
    with open(tmp, "w") as f:
        json.dump(ev, f, indent=1, sort_keys=True)
    os.replace(tmp, path)


def out(line):
    sys.stdout.write(line + "\n")
    sys.stdout.flush()
