"""CLI:  python -m sim.check <property id> [--tier quick|thorough] [--replay FILE]

Exit codes: 0 property held on everything explored (KNOWN-FINDING lines for listed
findings still present); 1 with `VIOLATION property=<id> replay=<path>`;
2 harness failure; 3 nondeterminism detected by the self-test.
"""
import argparse
import json
import os
import sys
import time

# Ad-hoc invocations (calibration aids) must never overwrite the committed evidence, which is
# to come from the registered commands only: redirect them before sim.util reads the environment.
if any(a in sys.argv for a in ("--runs", "--no-selftest", "--outside-region")) or \
        any(a.startswith("--runs=") for a in sys.argv):
    os.environ.setdefault("VERIF_EVIDENCE_DIR", "/tmp/verif_adhoc/evidence")
    os.environ.setdefault("VERIF_REPLAY_DIR", "/tmp/verif_adhoc/replays")

from sim import driver
from sim.report import out
from sim.util import canon, h64


def replay_file(path):
    with open(path) as f:
        rp = json.load(f)
    plan = get_plan(rp["property"])
    res = plan.replay(rp)
    sigs = sorted({v["signature"] for v in res.get("violations", [])})
    out("replay of %s: digest=%s violations=%d signatures=%s" % (
        path, res.get("digest"), len(res.get("violations", [])), sigs))
    for v in res.get("violations", [])[:5]:
        out("  " + canon(v))
    if "harness_error" in res:
        out("HARNESS-ERROR " + res["harness_error"])
        return 2
    if rp["expect"]["signature"] in sigs:
        if rp["expect"].get("digest") and rp["expect"]["digest"] != res.get("digest"):
            out("note: same violation, different digest (source changed since the replay was written?)")
        out("VIOLATION property=%s replay=%s" % (rp["property"], path))
        return 1
    out("not reproduced")
    return 0


def get_plan(prop):
    from sim import plans

    return plans.PLANS[prop]()


def main(argv=None):
    ap = argparse.ArgumentParser()
    ap.add_argument("prop")
    ap.add_argument("--tier", default=os.environ.get("VERIF_TIER") or "quick")
    ap.add_argument("--replay")
    ap.add_argument("--runs", type=int)
    ap.add_argument("--workers", type=int)
    ap.add_argument("--no-selftest", action="store_true")
    ap.add_argument("--outside-region", action="store_true",
                    help="calibration aid: do not restrict query shapes to the calibrated region")
    args = ap.parse_args(argv)
    if args.replay:
        return replay_file(args.replay)
    tier = args.tier if args.tier in ("quick", "thorough") else "quick"
    try:
        seed = int(os.environ.get("VERIF_SEED") or 0)
    except ValueError:
        seed = h64(os.environ.get("VERIF_SEED"))
    plan = get_plan(args.prop)
    t0 = time.time()
    try:
        rc = plan.check(tier, seed, args, t0)
    except driver.HarnessError as e:
        out("HARNESS-ERROR " + str(e))
        rc = 2
    return rc


if __name__ == "__main__":
    sys.exit(main())
