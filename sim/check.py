"""CLI:  python -m sim.check <property id> [--tier quick|thorough] [--replay FILE]

Exit codes: 0 property held on everything explored (KNOWN-FINDING lines for listed
findings still present); 1 with `VIOLATION property=<id> replay=<path>`;
2 harness failure; 3 nondeterminism detected by the self-test.
"""
import argparse
import json
import os
import sys
import time

# Ad-hoc invocations (calibration aids) must never overwrite the committed evidence, which is
# to come from the registered commands only: redirect them before sim.util reads the environment.
if any(a in sys.argv for a in ("--runs", "--no-selftest", "--outside-region", "--workers")) or \
        any(a.startswith(("--runs=", "--workers=")) for a in sys.argv):
    for _k, _v in (("VERIF_EVIDENCE_DIR", "/tmp/verif_adhoc/evidence"), ("VERIF_REPLAY_DIR", "/tmp/verif_adhoc/replays")):
        if not os.environ.get(_k):
            os.environ[_k] = _v
            os.environ["VERIF_ADHOC_" + _k] = "1"

from sim import driver
from sim.report import out
from sim.util import canon, h64


def replay_file(path):
    try:
        with open(path) as f:
            rp = json.load(f)
        rp["property"], rp["expect"]["signature"]
    except (OSError, ValueError, KeyError, TypeError) as e:
        out("HARNESS-ERROR cannot read replay file %s: %r" % (path, e))
        return 2
    plan = get_plan(rp["property"])
    res = plan.replay(rp)
    sigs = sorted({v["signature"] for v in res.get("violations", [])})
    out("replay of %s: digest=%s violations=%d signatures=%s" % (
        path, res.get("digest"), len(res.get("violations", [])), sigs))
    for v in res.get("violations", [])[:5]:
        out("  " + canon(v))
    if "harness_error" in res:
        out("HARNESS-ERROR " + res["harness_error"])
        return 2
    if rp["expect"]["signature"] in sigs:
        if rp["expect"].get("digest") and rp["expect"]["digest"] != res.get("digest"):
            out("note: same violation, different digest (source changed since the replay was written?)")
        out("VIOLATION property=%s replay=%s" % (rp["property"], path))
        return 1
    out("not reproduced")
    return 0


def get_plan(prop):
    from sim import plans

    if prop not in plans.PLANS:
        raise driver.HarnessError("no check for property %r (claimed: %s)" % (prop, ", ".join(sorted(plans.PLANS))))
    return plans.PLANS[prop]()


def main(argv=None):
    ap = argparse.ArgumentParser()
    ap.add_argument("prop")
    ap.add_argument("--tier", default=os.environ.get("VERIF_TIER") or "quick")
    ap.add_argument("--replay")
    ap.add_argument("--runs", type=int)
    ap.add_argument("--workers", type=int)
    ap.add_argument("--no-selftest", action="store_true")
    ap.add_argument("--outside-region", action="store_true",
                    help="calibration aid: do not restrict query shapes to the calibrated region")
    args = ap.parse_args(argv)
    if args.replay:
        return replay_file(args.replay)
    tier = args.tier if args.tier in ("quick", "thorough") else "quick"
    try:
        seed = int(os.environ.get("VERIF_SEED") or 0)
    except ValueError:
        seed = h64(os.environ.get("VERIF_SEED"))
    for var in ("VERIF_REPO", "VERIF_EVIDENCE_DIR", "VERIF_REPLAY_DIR"):
        if os.environ.get(var) and not os.environ.get("VERIF_ADHOC_" + var):
            out("note: %s=%s overrides the default location" % (var, os.environ[var]))
    plan = get_plan(args.prop)
    t0 = time.time()
    try:
        rc = plan.check(tier, seed, args, t0)
    except driver.HarnessError as e:
        out("HARNESS-ERROR " + str(e))
        rc = 2
    return rc


def guarded_main():
    """Any failure of the machinery itself is exit 2 with a HARNESS-ERROR line, never a
    traceback whose exit code (1) could be mistaken for a verdict."""
    try:
        return main()
    except SystemExit:
        raise
    except BaseException as e:  # noqa: B902
        import traceback

        traceback.print_exc()
        out("HARNESS-ERROR %s: %s" % (type(e).__name__, str(e)[:300]))
        return 2


if __name__ == "__main__":
    sys.exit(guarded_main())
