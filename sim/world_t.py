"""World T — thread schedules (C20).

Real threads, exactly one running at a time (baton passing).  Every `line` event
(optionally every opcode in selected functions) executed in measured/*.py by a
simulated thread is a pre-emption point at which the seeded scheduler — the only
place the PRNG is read — decides who runs next.  Locks created by the library
while it was imported are SimLocks (sim.simlock), so a parked lock holder can
never wedge a run.
"""
import random
import sys
import threading
from fractions import Fraction

from sim import model as M
from sim import simlock
from sim.boot import MEASURED_DIR
from sim.util import canon, digest

BATON_TIMEOUT = 20.0


class StepCap(Exception):
    pass


class SimThread:
    def __init__(self, sched, index, program, evaluator):
        self.sched = sched
        self.index = index
        self.name = "t%d" % index
        self.program = program
        self.evaluator = evaluator
        self.go = threading.Semaphore(0)
        self.done = False
        self.results = []
        self.error = None
        self.blocked_on = None
        self.last_point = None
        self.thread = threading.Thread(target=self._run, name=self.name, daemon=True)

    # tracing ----------------------------------------------------------
    def _gtrace(self, frame, event, arg):
        code = frame.f_code
        if code.co_filename.startswith(MEASURED_DIR):
            if code.co_qualname in self.sched.opcode_in:
                frame.f_trace_opcodes = True
            return self._ltrace
        return None

    def _ltrace(self, frame, event, arg):
        if event == "line":
            if not frame.f_trace_opcodes:
                self.sched.yield_point(self, frame)
        elif event == "opcode":
            self.sched.opcode_points += 1
            self.sched.yield_point(self, frame)
        elif event == "return":
            self.sched.on_return(self, frame, arg)
        return self._ltrace

    def _run(self):
        self.go.acquire()
        simlock.CURRENT.thread = self
        try:
            sys.settrace(self._gtrace)
            try:
                for expr in self.program:
                    if self.sched.aborted:
                        break
                    try:
                        self.results.append(("ok", self.evaluator(expr)))
                    except StepCap:
                        break
                    except Exception as e:
                        self.results.append(("raise", type(e).__name__))
            finally:
                sys.settrace(None)
        except BaseException as e:  # pragma: no cover
            self.error = repr(e)
        finally:
            simlock.CURRENT.thread = None
            self.done = True
            self.sched.back.release()


class Scheduler:
    def __init__(self, seed, strategy, d, max_steps, opcode_in, schedule=None, est_len=300):
        self.rng = random.Random(seed)
        self.strategy = strategy
        self.max_steps = max_steps
        self.opcode_in = set(opcode_in or [])
        self.replay = schedule
        self.back = threading.Semaphore(0)
        self.threads = []
        self.steps = 0
        self.decisions = []
        self.switches = []
        self.aborted = False
        self.capped = False
        self.deadlock = False
        self.created = []      # (class name, object) returned by interning __new__
        self.new_codes = {}
        self.lock_spins = 0
        self.preempt_in_new = 0
        self.opcode_points = 0
        # PCT: random priorities and d-1 priority change points
        self.d = d
        self.change_points = set()
        if strategy == "pct":
            self.change_points = {self.rng.randrange(1, est_len) for _ in range(max(0, d - 1))}
        self.prio = None

    def add(self, t):
        self.threads.append(t)

    # called from simulated threads -------------------------------------
    def yield_point(self, t, frame):
        t.last_point = (frame.f_code.co_qualname, frame.f_lineno)
        if self.aborted:
            raise StepCap()
        self.back.release()
        t.go.acquire()
        if self.aborted:
            raise StepCap()

    def lock_yield(self, t, lock):
        """A simulated thread found `lock` taken: park as blocked."""
        self.lock_spins += 1
        t.blocked_on = lock
        t.last_point = ("<lock-acquire>", 0)
        if self.aborted:
            raise StepCap()
        self.back.release()
        t.go.acquire()
        t.blocked_on = None
        if self.aborted:
            raise StepCap()

    def on_return(self, t, frame, arg):
        code = frame.f_code
        cls = self.new_codes.get(code)
        if cls is not None and arg is not None:
            self.created.append((cls, arg, t.index))

    # main loop -----------------------------------------------------------
    def runnable(self):
        out = []
        for t in self.threads:
            if t.done:
                continue
            if t.blocked_on is not None and t.blocked_on.held_by_other(t):
                continue
            out.append(t)
        return out

    def choose(self, runnable):
        i = self.steps
        if self.replay is not None:
            if i < len(self.replay):
                want = self.replay[i]
                for t in runnable:
                    if t.index == want:
                        return t
            return runnable[0]
        if self.strategy == "uniform":
            return runnable[self.rng.randrange(len(runnable))]
        if self.strategy == "sticky":
            # stay on the current thread, switch with small probability
            cur = self.decisions[-1] if self.decisions else None
            for t in runnable:
                if t.index == cur and self.rng.random() < 0.9:
                    return t
            return runnable[self.rng.randrange(len(runnable))]
        # pct
        if self.prio is None:
            order = list(range(len(self.threads)))
            self.rng.shuffle(order)
            self.prio = {idx: len(order) - k for k, idx in enumerate(order)}
            self.low = 0
        best = max(runnable, key=lambda t: self.prio[t.index])
        if i in self.change_points:
            self.low -= 1
            self.prio[best.index] = self.low
            best = max(runnable, key=lambda t: self.prio[t.index])
        return best

    def run(self):
        for t in self.threads:
            t.thread.start()
        prev = None
        while True:
            if all(t.done for t in self.threads):
                break
            r = self.runnable()
            if not r:
                self.deadlock = True
                self.aborted = True
                # release everyone so that threads can unwind
                for t in self.threads:
                    if not t.done:
                        t.go.release()
                        if not self.back.acquire(timeout=BATON_TIMEOUT):
                            raise RuntimeError("baton not returned while unwinding deadlock")
                break
            t = self.choose(r)
            self.decisions.append(t.index)
            if prev is not None and prev != t.index:
                self.switches.append((t.index, ) + tuple(self.threads[prev].last_point or ("-", 0)))
                lp = self.threads[prev].last_point
                if lp and lp[0].endswith("__new__") and not self.threads[prev].done:
                    self.preempt_in_new += 1
            prev = t.index
            t.go.release()
            if not self.back.acquire(timeout=BATON_TIMEOUT):
                raise RuntimeError("baton not returned within %.0fs by %s at %r" % (
                    BATON_TIMEOUT, t.name, t.last_point))
            self.steps += 1
            if self.steps >= self.max_steps and not self.aborted:
                self.capped = True
                self.aborted = True
        for t in self.threads:
            t.thread.join(timeout=BATON_TIMEOUT)


# ------------------------------------------------------------ evaluation
class Evaluator:
    """Evaluates expression trees against the library (harness code: not traced)
    and the model; returns (class, key, object)."""

    def __init__(self, L, model):
        self.L = L
        self.model = model

    def __call__(self, e):
        return self.ev(e)

    def ev(self, e):
        L = self.L
        k = e[0]
        if k == "d":
            return L.Dimension._by_name[e[1]]
        if k == "d_pow":
            return self.ev(e[1]) ** e[2]
        if k == "d_mul":
            return self.ev(e[1]) * self.ev(e[2])
        if k == "d_div":
            return self.ev(e[1]) / self.ev(e[2])
        if k == "d_root":
            return self.ev(e[1]).root(e[2])
        if k == "p":
            return L.Prefix._by_name[e[1]]
        if k == "p_new":
            return L.Prefix(e[1], e[2])
        if k == "p_pow":
            return self.ev(e[1]) ** e[2]
        if k == "p_mul":
            return self.ev(e[1]) * self.ev(e[2])
        if k == "p_div":
            return self.ev(e[1]) / self.ev(e[2])
        if k == "u":
            return L.Unit._by_name[e[1]]
        if k == "u_pow":
            return self.ev(e[1]) ** e[2]
        if k == "u_mul":
            return self.ev(e[1]) * self.ev(e[2])
        if k == "u_div":
            return self.ev(e[1]) / self.ev(e[2])
        if k == "u_root":
            return self.ev(e[1]).root(e[2])
        if k == "p_mul_u":
            return self.ev(e[1]) * self.ev(e[2])
        if k == "parse":
            return L.Unit.parse(e[1])
        if k == "num":
            return self.ev(e[1]).as_ratio()[0]
        if k == "den":
            return self.ev(e[1]).as_ratio()[1]
        if k == "unprefixed_unit":
            return self.ev(e[1]).quantify().unit
        if k == "log_new":
            return L.Logarithm(e[1], self.ev(e[2]))
        if k == "log_mul":
            return self.ev(e[1]) * self.ev(e[2])
        if k == "logunit":
            return self.ev(e[1])[e[2] * self.ev(e[3])]
        raise ValueError(k)


def key_of(L, tok, obj):
    """(class name, structural key) computed by the harness, or None."""
    try:
        if isinstance(obj, L.Dimension):
            return ("Dimension", M.d_norm(obj.exponents))
        if isinstance(obj, L.Prefix):
            if obj.base == 0 or obj.exponent == 0:
                return ("Prefix", ())
            return ("Prefix", (obj.base, str(Fraction(obj.exponent))))
        if isinstance(obj, L.Unit):
            p = obj.prefix
            items = []
            for f, x in obj.factors.items():
                if f is L.One:
                    continue
                items.append((tok.get(id(f), "?%d" % id(f)), int(x)))
            pk = () if (p.base == 0 or p.exponent == 0) else (p.base, str(Fraction(p.exponent)))
            return ("Unit", (pk, tuple(sorted(items))))
        if isinstance(obj, L.Logarithm):
            p = obj.prefix
            pk = () if (p.base == 0 or p.exponent == 0) else (p.base, str(Fraction(p.exponent)))
            return ("Logarithm", (repr(obj.base), pk))
        if isinstance(obj, L.LogarithmicUnit):
            lk = key_of(L, tok, obj.logarithm)
            r = obj.reference
            return ("LogarithmicUnit", (lk, repr(r.magnitude), key_of(L, tok, r.unit)))
    except AttributeError:
        return None
    return None


SLOTS = {
    "Dimension": ("exponents", "name", "symbol", "_initialized"),
    "Prefix": ("base", "exponent", "name", "symbol", "_initialized"),
    "Unit": ("prefix", "factors", "dimension", "names", "symbols", "_initialized"),
    "Logarithm": ("base", "prefix", "name", "symbol", "_initialized"),
    "LogarithmicUnit": ("logarithm", "reference", "name", "symbol", "_initialized"),
}


def run(req, boot):
    import measured as L

    from sim import gen_t

    program = req.get("program")
    if program is None:
        program = gen_t.generate(req["seed"], boot.snapshot, req.get("params") or {})
    model = M.ModelWorld(boot.snapshot)
    tok = {}
    keep = []
    for name, u in list(L.Unit._by_name.items()):
        if len(u.factors) == 1 and next(iter(u.factors)) is u:
            tok[id(u)] = u.names[0]
            keep.append(u)

    sched = Scheduler(
        seed=program["sched_seed"], strategy=program["strategy"], d=program.get("d", 2),
        max_steps=program.get("max_steps", 20000), opcode_in=program.get("opcode_in"),
        schedule=req.get("schedule"), est_len=program.get("est_len", 300),
    )
    for cls in (L.Dimension, L.Prefix, L.Unit, L.Logarithm, L.LogarithmicUnit):
        sched.new_codes[cls.__new__.__code__] = cls.__name__
    ev = Evaluator(L, model)
    CLASSES = (L.Dimension, L.Prefix, L.Unit, L.Logarithm, L.LogarithmicUnit)
    sizes_before = {c.__name__: len(c._known) for c in CLASSES}
    ids_before = {c.__name__: {id(v) for v in c._known.values()} for c in CLASSES}
    if sched.opcode_in:
        # CPython 3.12 only instruments for per-instruction events at a sys.settrace()
        # call made after some frame has asked for them; the simulated threads each call
        # sys.settrace() when they start, so ask here first
        sys._getframe().f_trace_opcodes = True
    simlock.ACTIVE.sched = sched
    try:
        for i, prog in enumerate(program["threads"]):
            sched.add(SimThread(sched, i, prog, ev))
        # locks that library code creates lazily *during* the run go through the seam too
        with simlock.patched(MEASURED_DIR):
            sched.run()
    finally:
        simlock.ACTIVE.sched = None

    violations = []
    log = []
    counters = {}

    def count(k, n=1):
        counters[k] = counters.get(k, 0) + n

    # registry growth during the concurrent phase (measured before anything is evaluated again)
    grew = {c.__name__: len(c._known) - sizes_before[c.__name__] for c in CLASSES}
    if sched.deadlock:
        violations.append({"clause": "C20.progress", "signature": "C20/deadlock",
                           "step": sched.steps, "detail": {"points": [t.last_point for t in sched.threads]}})
    errs = [t.error for t in sched.threads if t.error]
    if errs:
        return {"harness_error": "simulated thread crashed: %r" % errs}

    # oracle 1: every object returned by an interning __new__ during the run, grouped by
    # structural key: one key, one object
    by_key = {}
    order = []
    for cls, obj, tidx in sched.created:
        k = key_of(L, tok, obj)
        if k is None:
            count("created.undescribable")
            continue
        if k not in by_key:
            by_key[k] = []
            order.append(k)
        if not any(o is obj for o in by_key[k]):
            by_key[k].append(obj)
    split = []
    for k in order:
        objs = by_key[k]
        count("keys_seen")
        if len(objs) > 1:
            split.append(k)
            violations.append({
                "clause": "C20.same-object", "signature": "C20/split-singleton/" + k[0],
                "step": sched.steps, "detail": {"key": canon(k), "objects": len(objs)}})
    # oracle 2: results of equal-valued expressions across threads are one object and
    # are what the registry holds and what a later evaluation returns
    res_by_key = {}
    for t in sched.threads:
        for (kind, val) in t.results:
            if kind != "ok":
                count("raise:" + str(val))
                continue
            k = key_of(L, tok, val)
            if k is None:
                continue
            res_by_key.setdefault(k, []).append(val)
    # oracle 0: every expression of every program is valid single-threaded (the generator
    # only emits divisible roots etc.), so an exception in a thread means that thread did
    # not obtain its object - e.g. it was handed a registered but unusable instance
    if not sched.capped and not sched.deadlock:
        for t in sched.threads:
            for ei, (kind, val) in enumerate(t.results):
                if kind == "raise":
                    violations.append({"clause": "C20.usable", "signature": "C20/thread-exception/" + str(val),
                                       "step": sched.steps,
                                       "detail": {"thread": t.index, "expr": t.program[ei]}})
    if not sched.capped and not sched.deadlock:
        for k in sorted(res_by_key, key=canon):
            objs = res_by_key[k]
            count("C20.results.checked")
            first = objs[0]
            if any(o is not first for o in objs) and k not in split:
                violations.append({
                    "clause": "C20.same-object", "signature": "C20/split-singleton/" + k[0],
                    "step": sched.steps, "detail": {"key": canon(k), "via": "thread results"}})
        # post-run evaluation (single-threaded now)
        for ti, t in enumerate(sched.threads):
            for ei, expr in enumerate(t.program):
                if ei >= len(t.results) or t.results[ei][0] != "ok":
                    continue
                try:
                    again = ev(expr)
                except Exception:
                    continue
                count("C20.later.checked")
                if again is not t.results[ei][1]:
                    k = key_of(L, tok, again)
                    sig = "C20/later-differs/" + (k[0] if k else "?")
                    if k in split:
                        continue
                    violations.append({"clause": "C20.later", "signature": sig, "step": sched.steps,
                                       "detail": {"thread": ti, "expr": expr}})
        # oracle 3: fully initialised
        for k in order:
            for obj in by_key[k]:
                for slot in SLOTS[k[0]]:
                    if not hasattr(obj, slot):
                        violations.append({"clause": "C20.initialised",
                                           "signature": "C20/half-initialised/" + k[0],
                                           "step": sched.steps, "detail": {"key": canon(k), "slot": slot}})
                        break
                else:
                    if getattr(obj, "_initialized", None) is not True:
                        violations.append({"clause": "C20.initialised",
                                           "signature": "C20/half-initialised/" + k[0],
                                           "step": sched.steps, "detail": {"key": canon(k), "slot": "_initialized"}})
        # oracle 4: "the registry ends with a single entry for it": each intern table grew by exactly
        # the number of distinct new structural keys its constructor handed out
        new_keys = {c.__name__: set() for c in CLASSES}
        for k in order:
            if any(id(o) not in ids_before[k[0]] for o in by_key[k]):
                new_keys[k[0]].add(k)
        for cname, g in grew.items():
            count("C20.table-count.checked")
            if g != len(new_keys[cname]):
                violations.append({"clause": "C20.table", "signature": "C20/table-count/" + cname,
                                   "step": sched.steps,
                                   "detail": {"table_grew_by": g, "distinct_new_keys": len(new_keys[cname])}})
        count("table_growth_total", sum(grew.values()))

    log.append({"decisions": "".join(str(x) for x in sched.decisions)})
    for t in sched.threads:
        log.append({"t": t.index, "results": [
            (kind, (canon(key_of(L, tok, v)) if kind == "ok" else v)) for kind, v in t.results]})
    log.append({"violations": sorted({v["signature"] for v in violations}),
                "capped": sched.capped, "deadlock": sched.deadlock})
    lines = [canon(l) for l in log]
    sw = digest([canon(s) for s in sched.switches])
    count("C20.keys.checked", len(order))
    probes = {"context_switches": len(sched.switches), "preempted_inside___new__": sched.preempt_in_new,
              "lock_blocked_yields": sched.lock_spins, "step_cap_hit": int(sched.capped),
              "instruction_level_yield_points": sched.opcode_points}
    return {
        "digest": digest(lines),
        "n_ops": sum(len(t.program) for t in sched.threads),
        "sched_steps": sched.steps,
        "violations": violations,
        "counters": counters,
        "probes": probes,
        "faults_fired": {"F3": len(sched.switches)},
        "interleaving": sw,
        "schedule": sched.decisions if req.get("want_ops") else None,
        "ops": program if req.get("want_ops") else None,
        "log": log if (req.get("opts") or {}).get("want_log") else None,
    }
