#!/usr/bin/env python3
"""Confirm sub-agent changes independently and file them under /verif/seeded/.

For every /tmp/wt_out/<PROP>/patch<i>.diff: in a scratch worktree of /repo's HEAD
(outside /repo and /verif): the demo must exit 0 without the patch, the patch must
apply, the demo must exit non-zero with it, and the existing suite must still give
907 passed with the same failures.  Kept changes go to seeded/<PROP>-<i>/.
usage: tools/verify_seeded.py PROP [PROP...]
"""
import json
import os
import re
import shutil
import subprocess
import sys
import tempfile

VERIF = os.path.dirname(os.path.dirname(os.path.abspath(__file__)))
PY = "/venv/bin/python"


def sh(cmd, cwd=None, env=None, timeout=1200):
    r = subprocess.run(cmd, cwd=cwd, env=env, capture_output=True, text=True, timeout=timeout)
    return r.returncode, r.stdout + r.stderr


def suite(repo):
    env = dict(os.environ, PYTHONPATH=os.path.join(repo, "src"))
    shutil.rmtree(os.path.join(repo, ".hypothesis"), ignore_errors=True)
    rc, out = sh([PY, "-m", "pytest", "-q", "-p", "no:cacheprovider", "-x", "--maxfail=1000"], cwd=repo, env=env)
    m = re.search(r"(\d+) failed, (\d+) passed", out)
    failed = sorted(set(re.findall(r"^FAILED (\S+)", out, re.M)))
    return (int(m.group(1)), int(m.group(2))) if m else None, failed, out[-400:]


def main():
    base_fail = None
    for arg in sys.argv[1:]:
        src = "/tmp/wt_out/" + arg
        prop = arg[:3]                       # C01b -> property C01
        offset = 2 * (ord(arg[3]) - ord("a") + 1) if len(arg) > 3 else 0
        for i in (1, 2):
            patch = os.path.join(src, "patch%d.diff" % i)
            demo = os.path.join(src, "demo%d.py" % i)
            notes = os.path.join(src, "notes%d.md" % i)
            if not (os.path.exists(patch) and os.path.exists(demo)):
                continue
            tmp = tempfile.mkdtemp(prefix="vs_", dir="/tmp")
            repo = os.path.join(tmp, "repo")
            try:
                subprocess.run(["git", "-C", "/repo", "worktree", "add", "--detach", "-f", repo, "HEAD"],
                               check=True, capture_output=True)
                env = dict(os.environ, PYTHONPATH=os.path.join(repo, "src"))
                if base_fail is None:
                    cnt, base_fail, tail = suite(repo)
                    print("baseline suite:", cnt)
                rc0, out0 = sh([PY, demo], cwd=tmp, env=env, timeout=600)
                rc, out = sh(["git", "-C", repo, "apply", "--3way", patch])
                if rc != 0:
                    rc, out = sh(["git", "-C", repo, "apply", patch])
                if rc != 0:
                    print("%s-%d PATCH-FAILED %s" % (prop, i + offset, out.strip()[:300]))
                    continue
                sh(["git", "-C", repo, "reset", "-q"])
                diff = subprocess.run(["git", "-C", repo, "diff"], capture_output=True, text=True).stdout
                rc1, out1 = sh([PY, demo], cwd=tmp, env=env, timeout=600)
                cnt, failed, tail = suite(repo)
                FLAKY = "tests/test_parsing.py::test_each_unit_roundtrips"
                tries = 0
                while failed != base_fail and sorted(set(failed) - {FLAKY}) == base_fail and tries < 3:
                    # pre-existing flaky hypothesis test (samples an unparseable rendering, C13 class)
                    tries += 1
                    cnt, failed, tail = suite(repo)
                if failed != base_fail:
                    print("   differing failures:", sorted(set(failed) ^ set(base_fail)))
                ok = rc0 == 0 and rc1 != 0 and cnt is not None and cnt[1] == 907 and failed == base_fail
                print("%s-%d demo_clean_rc=%d demo_patched_rc=%d suite=%s same_failures=%s => %s" % (
                    prop, i + offset, rc0, rc1, cnt, failed == base_fail, "KEEP" if ok else "REJECT"))
                if not ok:
                    print("   demo clean tail:", out0.strip()[-300:].replace("\n", " | "))
                    print("   suite tail:", tail.strip()[-200:].replace("\n", " | "))
                    continue
                d = os.path.join(VERIF, "seeded", "%s-%d" % (prop, i + offset))
                os.makedirs(d, exist_ok=True)
                with open(os.path.join(d, "patch.diff"), "w") as f:
                    f.write(diff)
                shutil.copy(demo, os.path.join(d, "demo.py"))
                if os.path.exists(notes):
                    shutil.copy(notes, os.path.join(d, "notes.md"))
                head = subprocess.run(["git", "-C", "/repo", "log", "-1", "--format=%h"], capture_output=True, text=True).stdout.strip()
                meta = {
                    "property": prop,
                    "source": "independent sub-agent given only the property text and a scratch worktree",
                    "needs_to_manifest": open(notes).read().strip() if os.path.exists(notes) else "",
                    "confirmed": {
                        "against_repo_head": head,
                        "demo_exit_without_change": rc0, "demo_exit_with_change": rc1,
                        "suite_with_change": {"failed": cnt[0], "passed": cnt[1], "same_failing_tests_as_baseline": True},
                        "commands": ["git apply patch.diff (scratch worktree of /repo HEAD)",
                                     "PYTHONPATH=<wt>/src /venv/bin/python demo.py",
                                     "cd <wt> && PYTHONPATH=<wt>/src /venv/bin/python -m pytest -q -p no:cacheprovider"],
                        "demo_output_with_change": out1.strip()[-600:],
                    },
                }
                with open(os.path.join(d, "meta.json"), "w") as f:
                    json.dump(meta, f, indent=1)
            finally:
                subprocess.run(["git", "-C", "/repo", "worktree", "remove", "--force", repo], capture_output=True)
                shutil.rmtree(tmp, ignore_errors=True)


if __name__ == "__main__":
    main()
