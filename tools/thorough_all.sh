#!/bin/sh
# Runs the thorough tier of every registered check once (evidence/replays into ./thorough_out so that
# the committed evidence files are not touched).  usage: tools/thorough_all.sh [budget seconds per check]
B=${1:-1500}
mkdir -p thorough_out
for p in ${PROPS:-C09 C20 C19 C08 C04 C05 C07 C01 C02 C15 C13}; do
  VERIF_BUDGET_S=$B VERIF_EVIDENCE_DIR=$PWD/thorough_out/ev VERIF_REPLAY_DIR=$PWD/thorough_out/rp \
    /venv/bin/python -m sim.check $p --tier thorough > thorough_out/$p.log 2>&1
  echo "$p rc=$? $(grep -v KNOWN thorough_out/$p.log | tail -1)"
done
