#!/usr/bin/env python3
"""Sensitivity runs: apply each suite-surviving mutant to a scratch copy of /repo
(outside /repo and /verif), run the property's quick check against it via
VERIF_REPO, report caught / missed, delete the copy.

usage: tools/run_mutants.py [--tier quick] [--only NAME_SUBSTR] [--jobs N] [--seed S]
Mutant sources: design_assets/sensitivity_mutants.json (text replacements) and
seeded/<id>/patch.diff (+ meta.json naming the property).
"""
import argparse
import json
import os
import shutil
import subprocess
import sys
import tempfile
from concurrent.futures import ThreadPoolExecutor

VERIF = os.path.dirname(os.path.dirname(os.path.abspath(__file__)))


def load():
    muts = []
    with open(os.path.join(VERIF, "design_assets", "sensitivity_mutants.json")) as f:
        for name, m in json.load(f)["mutants"].items():
            muts.append({"name": name, "props": name.split("_")[0].split("/"), "kind": "replace", **m})
    sd = os.path.join(VERIF, "seeded")
    if os.path.isdir(sd):
        for d in sorted(os.listdir(sd)):
            meta = os.path.join(sd, d, "meta.json")
            patch = os.path.join(sd, d, "patch.diff")
            if os.path.exists(meta) and os.path.exists(patch):
                with open(meta) as f:
                    mj = json.load(f)
                props = mj.get("property")
                props = props if isinstance(props, list) else [props]
                muts.append({"name": "seeded/" + d, "props": props, "kind": "patch", "patch": patch})
    return muts


def run_one(m, tier, seed, extra_props=None):
    tmp = tempfile.mkdtemp(prefix="mut_", dir="/tmp")
    res = []
    try:
        repo = os.path.join(tmp, "repo")
        subprocess.run(["git", "-C", "/repo", "worktree", "add", "--detach", "-f", repo, "HEAD"],
                       check=True, capture_output=True)
        # the worktree has HEAD's content; bring in uncommitted tracked changes too (none expected)
        if m["kind"] == "replace":
            p = os.path.join(repo, m["file"])
            s = open(p).read()
            if s.count(m["old"]) != 1:
                return [(m["name"], "-", "NOT-APPLICABLE(old text count=%d)" % s.count(m["old"]))]
            open(p, "w").write(s.replace(m["old"], m["new"]))
        else:
            r = subprocess.run(["git", "-C", repo, "apply", "--3way", m["patch"]], capture_output=True, text=True)
            if r.returncode != 0:
                r = subprocess.run(["git", "-C", repo, "apply", m["patch"]], capture_output=True, text=True)
                if r.returncode != 0:
                    return [(m["name"], "-", "PATCH-FAILED " + r.stderr.strip()[:200])]
        for prop in (extra_props or m["props"]):
            env = dict(os.environ, VERIF_REPO=repo, VERIF_EVIDENCE_DIR=os.path.join(tmp, "ev"),
                       VERIF_REPLAY_DIR=os.path.join(tmp, "rp"), VERIF_SEED=str(seed))
            r = subprocess.run([sys.executable, "-m", "sim.check", prop, "--tier", tier],
                               cwd=VERIF, env=env, capture_output=True, text=True, timeout=3600)
            viol = [l for l in r.stdout.splitlines() if l.startswith("VIOLATION")]
            detail = [l.strip() for l in r.stdout.splitlines() if l.startswith("  signature=") or "regression" in l]
            verdict = "CAUGHT" if (r.returncode == 1 and viol) else ("MISSED" if r.returncode == 0 else "RC=%d" % r.returncode)
            if m.get("name", "").startswith("benign"):
                verdict = {"CAUGHT": "FALSE-ALARM", "MISSED": "SILENT(ok)"}.get(verdict, verdict)
            tail = (detail[0][:160] if detail else (r.stdout.strip().splitlines()[-1][:160] if r.stdout.strip() else r.stderr.strip()[-200:]))
            res.append((m["name"], prop, verdict + "  " + tail))
    finally:
        subprocess.run(["git", "-C", "/repo", "worktree", "remove", "--force", repo], capture_output=True)
        shutil.rmtree(tmp, ignore_errors=True)
    return res


def main():
    ap = argparse.ArgumentParser()
    ap.add_argument("--tier", default="quick")
    ap.add_argument("--only")
    ap.add_argument("--props")
    ap.add_argument("--jobs", type=int, default=2)
    ap.add_argument("--seed", type=int, default=0)
    ap.add_argument("--benign", action="store_true",
                    help="run design_assets/benign_changes.json instead: every check must stay silent (PASS)")
    a = ap.parse_args()
    sys.path.insert(0, VERIF)
    from sim.plans import PLANS
    if a.benign:
        with open(os.path.join(VERIF, "design_assets", "benign_changes.json")) as f:
            src = [{"name": n, "kind": "replace", **m} for n, m in json.load(f)["mutants"].items()]
        bd = os.path.join(VERIF, "design_assets", "benign")
        allp = ["C01", "C02", "C04", "C05", "C07", "C08", "C09", "C13", "C15", "C19", "C20"]
        for fn in sorted(os.listdir(bd)) if os.path.isdir(bd) else []:
            if fn.endswith(".diff"):
                src.append({"name": "benign_" + fn[:-5], "kind": "patch", "patch": os.path.join(bd, fn), "props": allp})
    else:
        src = load()
    muts = [m for m in src if (not a.only or a.only in m["name"])]
    extra = a.props.split(",") if a.props else None
    muts = [m for m in muts if extra or any(p in PLANS for p in m["props"])]
    for m in muts:
        m["props"] = [p for p in m["props"] if p in PLANS]
    with ThreadPoolExecutor(a.jobs) as ex:
        for res in ex.map(lambda m: run_one(m, a.tier, a.seed, extra), muts):
            for name, prop, verdict in res:
                print("%-34s %-4s %s" % (name, prop, verdict), flush=True)


if __name__ == "__main__":
    main()
