#!/usr/bin/env python3
"""Determinism proof on a large sample: for each property, N run seeds are executed
three times - (PYTHONHASHSEED=0, 16 workers), (PYTHONHASHSEED=4242, 5 workers),
(PYTHONHASHSEED=random-looking, 11 workers, templates started fresh) - and every
run digest is compared.   usage: tools/determinism.py [--n 300] [--props C01,...]"""
import argparse
import json
import os
import sys

VERIF = os.path.dirname(os.path.dirname(os.path.abspath(__file__)))
sys.path.insert(0, VERIF)

from sim import driver  # noqa: E402
from sim.plans import PLANS  # noqa: E402
from sim.util import h64  # noqa: E402


def main():
    ap = argparse.ArgumentParser()
    ap.add_argument("--n", type=int, default=300)
    ap.add_argument("--props")
    ap.add_argument("--seed", type=int, default=12345)
    a = ap.parse_args()
    props = a.props.split(",") if a.props else sorted(PLANS)
    total_bad = 0
    for p in props:
        plan = PLANS[p]()
        plan.params_cache = plan.params("quick")
        boots = plan.boots("quick", a.seed)
        tasks = plan.check_tasks("quick", a.seed, a.n)
        if tasks is None:
            tasks = [(boots[i % len(boots)], plan.request(h64(a.seed, p, i), boots[i % len(boots)])) for i in range(a.n)]
        digests = []
        for hs, workers in ((0, 16), (4242, 5), (987654321, 11)):
            t2 = [(dict(b, hashseed=hs), r) for b, r in tasks]
            res = driver.Pool(workers=workers).run(t2)
            digests.append([r.get("digest") or ("ERR:" + str(r.get("harness_error"))[-80:]) for r in res])
        bad = [i for i in range(len(tasks)) if len({d[i] for d in digests}) != 1]
        total_bad += len(bad)
        print(json.dumps({"property": p, "runs": len(tasks), "configurations": 3, "mismatching_runs": len(bad),
                          "first_mismatch": (bad[0], [d[bad[0]] for d in digests]) if bad else None}), flush=True)
    return 1 if total_bad else 0


if __name__ == "__main__":
    sys.exit(main())
