#!/usr/bin/env python3
"""Soak: run a tier of every (or the given) check under many VERIF_SEED values and
record exit codes and VIOLATION / HARNESS lines.  A check must exit 0 on the unchanged
tree for every seed.   usage: tools/soak.py --seeds 1-20 [--tier quick] [--props C01,C04]
Writes soak_<tier>.jsonl in the current directory; evidence/replays go to ./soak_out/."""
import argparse
import json
import os
import subprocess
import sys
import time

VERIF = os.path.dirname(os.path.dirname(os.path.abspath(__file__)))


def main():
    ap = argparse.ArgumentParser()
    ap.add_argument("--seeds", default="1-10")
    ap.add_argument("--tier", default="quick")
    ap.add_argument("--props")
    a = ap.parse_args()
    lo, hi = (a.seeds.split("-") + [a.seeds])[:2]
    seeds = range(int(lo), int(hi) + 1)
    m = json.load(open(os.path.join(VERIF, "MANIFEST.json")))
    props = a.props.split(",") if a.props else [c["property_id"] for c in m["checks"]]
    outdir = os.path.abspath("soak_out")
    os.makedirs(outdir, exist_ok=True)
    bad = 0
    with open("soak_%s.jsonl" % a.tier, "a") as f:
        for s in seeds:
            for p in props:
                env = dict(os.environ, VERIF_SEED=str(s), VERIF_EVIDENCE_DIR=os.path.join(outdir, "ev"),
                           VERIF_REPLAY_DIR=os.path.join(outdir, "rp"))
                t0 = time.time()
                r = subprocess.run([sys.executable, "-m", "sim.check", p, "--tier", a.tier], cwd=VERIF, env=env,
                                   capture_output=True, text=True)
                lines = [l for l in r.stdout.splitlines() if l.startswith(("VIOLATION", "HARNESS", "  signature"))]
                rec = {"prop": p, "seed": s, "rc": r.returncode, "wall": round(time.time() - t0, 1), "lines": lines[:10],
                       "stderr": r.stderr[-300:] if r.returncode not in (0, 1) else ""}
                f.write(json.dumps(rec) + "\n")
                f.flush()
                if r.returncode != 0:
                    bad += 1
                print(p, s, r.returncode, rec["wall"], lines[:2], flush=True)
    print("non-zero exits:", bad)


if __name__ == "__main__":
    main()
